// maporder rewrites every `range` over a map in goverter's non-test packages so that the iteration order comes
// from package vorder, and writes a `go build -overlay` description. /repo itself is not touched; the rewrite is
// recomputed from the working tree on every run.
//
// usage: maporder <repo dir> <out dir>
package main

import (
	"encoding/json"
	"fmt"
	"go/ast"
	"go/token"
	"go/types"
	"os"
	"path/filepath"
	"sort"
	"strings"

	"golang.org/x/tools/go/packages"
)

type edit struct {
	pos, end int
	text     string
}

func main() {
	repo, out := os.Args[1], os.Args[2]
	cfg := &packages.Config{Mode: packages.NeedName | packages.NeedFiles | packages.NeedSyntax | packages.NeedTypes | packages.NeedTypesInfo | packages.NeedCompiledGoFiles,
		Dir: repo, BuildFlags: []string{"-tags", "verif"}}
	pkgs, err := packages.Load(cfg, "./...")
	if err != nil {
		fmt.Fprintln(os.Stderr, err)
		os.Exit(1)
	}
	overlay := map[string]string{}
	var sites []string
	var problems []string
	_ = os.MkdirAll(out, 0o755)
	for _, p := range pkgs {
		if strings.Contains(p.PkgPath, "/example") || strings.Contains(p.PkgPath, "/execution") || strings.Contains(p.PkgPath, "/scenario") || strings.Contains(p.PkgPath, "/docs") {
			continue
		}
		if len(p.Errors) > 0 {
			fmt.Fprintln(os.Stderr, "package", p.PkgPath, "has errors:", p.Errors[0])
			os.Exit(1)
		}
		for i, file := range p.Syntax {
			fname := p.CompiledGoFiles[i]
			if strings.HasSuffix(fname, "_test.go") {
				continue
			}
			src, err := os.ReadFile(fname)
			if err != nil {
				continue
			}
			tf := p.Fset.File(file.Pos())
			var edits []edit
			n := 0
			labeled := map[ast.Stmt]bool{}
			ast.Inspect(file, func(nd ast.Node) bool {
				if l, ok := nd.(*ast.LabeledStmt); ok {
					labeled[l.Stmt] = true
				}
				return true
			})
			ast.Inspect(file, func(nd ast.Node) bool {
				rs, ok := nd.(*ast.RangeStmt)
				if !ok {
					return true
				}
				t := p.TypesInfo.TypeOf(rs.X)
				if t == nil {
					return true
				}
				if _, isMap := t.Underlying().(*types.Map); !isMap {
					if tp, ok := t.(*types.TypeParam); !ok || tp == nil {
						return true
					}
					return true
				}
				rel, _ := filepath.Rel(repo, fname)
				line := p.Fset.Position(rs.For).Line
				site := fmt.Sprintf("%s:%d", rel, line)
				if labeled[rs] {
					problems = append(problems, site+": labeled range over map cannot be rewritten")
					return true
				}
				if rs.Tok == token.ASSIGN {
					problems = append(problems, site+": range with '=' cannot be rewritten")
					return true
				}
				n++
				mv := fmt.Sprintf("vorderM%d", n)
				kv := fmt.Sprintf("vorderK%d", n)
				x := string(src[tf.Offset(rs.X.Pos()):tf.Offset(rs.X.End())])
				key := kv
				if id, ok := rs.Key.(*ast.Ident); ok && id != nil && id.Name != "_" {
					key = id.Name
				}
				hdr := fmt.Sprintf("{ %s := %s; for _, %s := range vorder.Keys(%s, %q) {", mv, x, key, mv, site)
				if key == kv {
					hdr += " _ = " + kv + ";"
				}
				if id, ok := rs.Value.(*ast.Ident); ok && id != nil && id.Name != "_" {
					hdr += fmt.Sprintf(" %s := %s[%s];", id.Name, mv, key)
				}
				edits = append(edits, edit{tf.Offset(rs.For), tf.Offset(rs.Body.Lbrace) + 1, hdr})
				edits = append(edits, edit{tf.Offset(rs.Body.Rbrace) + 1, tf.Offset(rs.Body.Rbrace) + 1, " }"})
				sites = append(sites, site)
				return true
			})
			if len(edits) == 0 {
				continue
			}
			// import right after the package clause
			pe := tf.Offset(file.Name.End())
			edits = append(edits, edit{pe, pe, "\nimport vorder \"github.com/jmattheis/goverter/vorder\"\n"})
			sort.Slice(edits, func(i, j int) bool {
				if edits[i].pos != edits[j].pos {
					return edits[i].pos > edits[j].pos
				}
				return edits[i].end > edits[j].end
			})
			b := src
			for _, e := range edits {
				b = append(append(append([]byte{}, b[:e.pos]...), []byte(e.text)...), b[e.end:]...)
			}
			rel, _ := filepath.Rel(repo, fname)
			dst := filepath.Join(out, strings.ReplaceAll(rel, string(filepath.Separator), "__"))
			if err := os.WriteFile(dst, b, 0o644); err != nil {
				fmt.Fprintln(os.Stderr, err)
				os.Exit(1)
			}
			overlay[fname] = dst
		}
	}
	if len(problems) > 0 {
		fmt.Fprintln(os.Stderr, "UNINSTRUMENTABLE:", strings.Join(problems, "; "))
		os.Exit(3)
	}
	vsrc, err := os.ReadFile(os.Args[3])
	if err != nil {
		fmt.Fprintln(os.Stderr, err)
		os.Exit(1)
	}
	vdst := filepath.Join(out, "vorder.go")
	_ = os.WriteFile(vdst, vsrc, 0o644)
	overlay[filepath.Join(repo, "vorder", "vorder.go")] = vdst
	j, _ := json.MarshalIndent(map[string]any{"Replace": overlay}, "", " ")
	_ = os.WriteFile(filepath.Join(out, "overlay.json"), j, 0o644)
	sort.Strings(sites)
	sj, _ := json.Marshal(sites)
	_ = os.WriteFile(filepath.Join(out, "sites.json"), sj, 0o644)
	fmt.Printf("instrumented %d map-range sites in %d files\n", len(sites), len(overlay)-1)
	for _, s := range sites {
		fmt.Println("  ", s)
	}
}
