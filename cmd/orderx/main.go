//go:build maporder

// orderx is the MapOrder explorer (engine E2). It is built with the overlay produced by cmd/maporder, so that every
// map iteration inside goverter is a choice point. For one input module it enumerates all choice sequences with at
// most <bound> deviations from the default (sorted) order and compares the observation of every execution with the
// default execution.
//
// usage: orderx <bound> <module dir> <pattern>...
package main

import (
	"crypto/sha1"
	"encoding/hex"
	"encoding/json"
	"fmt"
	"os"
	"path/filepath"
	"sort"
	"strconv"
	"strings"

	goverter "github.com/jmattheis/goverter"
	"github.com/jmattheis/goverter/config"
	"github.com/jmattheis/goverter/vorder"
)

type result struct {
	Input       string         `json:"input"`
	Executions  int            `json:"executions"`
	Points      int            `json:"points"` // choice points of the default execution
	MaxPoints   int            `json:"max_points"`
	Sites       map[string]int `json:"sites"`
	Baseline    string         `json:"baseline"`
	Divergences []divergence   `json:"divergences"`
	Error       string         `json:"error,omitempty"`
	Bound       int            `json:"bound"`
	Capped      bool           `json:"capped"`
}

type divergence struct {
	Choices []int    `json:"choices"`
	Site    string   `json:"site"`
	Sites   []string `json:"sites"`
	Got     string   `json:"got"`
	Want    string   `json:"want"`
}

var (
	dir      string
	patterns []string
	res      result
	bound    int
	maxExec  = 20000
)

type exec struct {
	obs    string
	points []vorder.Point
}

func run(choices []int) exec {
	vorder.Begin(choices)
	var obs string
	func() {
		defer func() {
			if r := recover(); r != nil {
				obs = fmt.Sprintf("PANIC: %v", r)
			}
		}()
		files, err := goverter.VerifGenerateRaw(&goverter.GenerateConfig{PackagePatterns: patterns, WorkingDir: dir, BuildTags: "goverter",
			OutputBuildConstraint: "!goverter", Global: config.RawLines{Location: "command line (-g, -global)"}})
		if err != nil {
			obs = "ERROR: " + strings.ReplaceAll(err.Error(), dir, "@root")
			return
		}
		var names []string
		for n := range files {
			names = append(names, n)
		}
		sort.Strings(names)
		var b strings.Builder
		for _, n := range names {
			rel, _ := filepath.Rel(dir, n)
			h := sha1.Sum(files[n])
			fmt.Fprintf(&b, "%s %s\n", rel, hex.EncodeToString(h[:8]))
		}
		obs = "FILES:\n" + b.String()
	}()
	res.Executions++
	pts := vorder.End()
	if vorder.ReplayError != "" {
		res.Error = "replay error: " + vorder.ReplayError
	}
	return exec{obs, pts}
}

func nonzero(c []int) int {
	n := 0
	for _, x := range c {
		if x != 0 {
			n++
		}
	}
	return n
}

func explore(prefix []int, base string) {
	if res.Executions >= maxExec {
		res.Capped = true
		return
	}
	x := run(prefix)
	if len(x.points) > res.MaxPoints {
		res.MaxPoints = len(x.points)
	}
	if x.obs != base && len(res.Divergences) < 20 {
		var sites []string
		site := ""
		for i, c := range prefix {
			if c != 0 && i < len(x.points) {
				sites = append(sites, x.points[i].Site)
				site = x.points[i].Site
			}
		}
		res.Divergences = append(res.Divergences, divergence{Choices: append([]int{}, prefix...), Site: site, Sites: sites, Got: trim(x.obs), Want: trim(base)})
	}
	dev := nonzero(prefix)
	if dev >= bound {
		return
	}
	for i := len(prefix); i < len(x.points); i++ {
		for alt := 1; alt < x.points[i].Alts; alt++ {
			np := make([]int, i+1)
			copy(np, prefix)
			np[i] = alt
			explore(np, base)
		}
	}
}

func trim(s string) string {
	if len(s) > 1500 {
		return s[:1500] + "…"
	}
	return s
}

func main() {
	bound, _ = strconv.Atoi(os.Args[1])
	dir = os.Args[2]
	patterns = os.Args[3:]
	res.Input = filepath.Base(dir)
	res.Bound = bound
	// default execution, replayed twice: identical observations and identical choice points, else nothing is trusted
	a := run(nil)
	b := run(nil)
	if a.obs != b.obs || len(a.points) != len(b.points) {
		res.Error = "nondeterminism outside the controlled map iterations: two default executions differ"
	}
	res.Baseline = trim(a.obs)
	res.Points = len(a.points)
	res.Executions = 0
	explore(nil, a.obs)
	res.Sites = vorder.Sites
	j, _ := json.Marshal(res)
	fmt.Println(string(j))
}
