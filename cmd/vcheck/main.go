// vcheck is the driver of all checks: vcheck <Cxx> [--replay file]; tier from VERIF_TIER.
package main

import (
	"fmt"
	"os"
	"strconv"

	"verif/internal/checks"
	"verif/internal/ev"
	"verif/internal/pool"
)

func main() {
	if len(os.Args) < 2 {
		fmt.Fprintln(os.Stderr, "usage: vcheck <Cxx> | worker <name> <i> <n> ...")
		os.Exit(2)
	}
	if os.Args[1] == "worker" {
		worker(os.Args[2:])
		return
	}
	if os.Args[1] == "dump" && len(os.Args) >= 5 {
		// development aid: vcheck dump <family[@format]> <tier> <scenario id> prints the stand-alone reproduction script
		fmt.Print(checks.DumpScenario(os.Args[2], os.Args[3], os.Args[4]))
		return
	}
	prop := os.Args[1]
	run := ev.Start(prop)
	if len(os.Args) >= 4 && os.Args[2] == "--replay" {
		os.Exit(checks.Replay(prop, os.Args[3]))
	}
	f, ok := checks.Registry[prop]
	if !ok {
		fmt.Fprintln(os.Stderr, "unknown check", prop)
		os.Exit(2)
	}
	f(run)
	os.Exit(run.Finish())
}

func worker(args []string) {
	name := args[0]
	i, _ := strconv.Atoi(args[1])
	n, _ := strconv.Atoi(args[2])
	w := pool.NewW()
	f, ok := checks.Workers[name]
	if !ok {
		fmt.Fprintln(os.Stderr, "unknown worker", name)
		os.Exit(2)
	}
	err := f(w, i, n, args[3:])
	w.Close()
	if err != nil {
		fmt.Fprintln(os.Stderr, "worker error:", err)
		os.Exit(4)
	}
}
