package checks

import (
	"fmt"
	"strings"

	"verif/internal/model"
	"verif/internal/space"
)

// ---- C01 (ii)/(iii): adversarial names and output layouts ----

type namePair struct{ a, b string } // two named struct types used side by side

var c01TypeNames = []namePair{
	{"Address", "Address2"}, {"Item", "Item1"}, {"Error", "Err"}, {"Impl", "Conv"}, {"List", "Map"}, {"X", "X2"},
	{"String", "Int"}, {"Source", "Target"}, {"Context", "Key"}, {"T", "T2"},
}

// package name pairs for the source and target types
var c01PkgNames = [][2]string{
	{"in", "out"}, {"source", "target"}, {"context", "value"}, {"key", "i"}, {"c", "j"}, {"err", "errors"}, {"generated", "conv2"}, {"types", "types2"},
}

// buildC01Names: In{A Ta; B Ta; C Tb; L []Ta; M map[string]Tb; P *Ta} → same shape in the target package. Custom functions
// with error results exist for Ta→Ta' and Tb→Tb' when fallible is set, so that temporaries (v, err :=) are emitted several times.
func buildC01Names(id string, np namePair, pk [2]string, format string, fallible bool, methodNames string, nestedFirst bool) *Scenario {
	sc := &Scenario{ID: "W" + id, PropGen: "C01", PropVal: "C02", Test: "Convert", Funcs: map[string]string{},
		Desc: map[string]any{"class": fmt.Sprintf("names types=%s/%s pkgs=%s/%s format=%s fallible=%v methods=%s nestedFirst=%v", np.a, np.b, pk[0], pk[1], format, fallible, methodNames, nestedFirst)}}
	mk := func(pkg, name string) *space.Decl {
		return &space.Decl{Pkg: pkg, Name: name, Under: space.St(f("V", tInt), f("S", tStr))}
	}
	sa, sb := mk(pk[0], np.a), mk(pk[0], np.b)
	ta, tb := mk(pk[1], np.a), mk(pk[1], np.b)
	shape := func(a, b *space.Decl) *space.Ty {
		A, B := space.N(a), space.N(b)
		flat := []space.Field{f("A", A), f("B", A), f("C", B), f("L", space.S(A)), f("M", space.M(tStr, B)), f("P", space.P(A))}
		nested := []space.Field{f("N", space.M(tStr, space.S(B))), f("LL", space.S(space.S(A))), f("PM", space.M(tStr, space.P(B))), f("U", space.St(f("In", A)))}
		if nestedFirst {
			return space.St(append(nested, flat...)...)
		}
		return space.St(append(flat, nested...)...)
	}
	so := &space.Decl{Pkg: pk[0], Name: "Outer" + id, Under: shape(sa, sb)}
	to := &space.Decl{Pkg: pk[1], Name: "Outer" + id, Under: shape(ta, tb)}
	// type names are shared between scenarios of one batch: suffix them with the id but keep the adversarial stem
	for _, d := range []*space.Decl{sa, sb, ta, tb} {
		d.Name = d.Name + "Q" + id
	}
	// restore the "same stem + digit" relation: Address…, Address2… share the prefix; the digit moves to the end
	sb.Name, tb.Name = np.a+"Q"+id+suffixDigits(np.b, np.a), np.a+"Q"+id+suffixDigits(np.b, np.a)
	if !strings.HasPrefix(np.b, np.a) {
		sb.Name, tb.Name = np.b+"Q"+id, np.b+"Q"+id
	}
	sc.Decls = []*space.Decl{sa, sb, ta, tb, so, to}
	sc.Desc["tokens"] = []string{"Q" + id, "Outer" + id, "Convert" + id}
	for _, p := range pk {
		if p != "in" && p != "out" {
			sc.Imports = append(sc.Imports, p)
		}
	}
	conv := &model.Converter{OutPkg: "conv/generated", LitPkg: "conv"}
	sc.Conv = conv
	if format == "function" {
		sc.ConvLines = append(sc.ConvLines, "output:format function")
		sc.FnExprOverride = "generated.Convert" + id
		sc.AssertOverride = "var _ = generated.Convert" + id
	}
	hasErr := fallible
	if fallible {
		sc.ConvLines = append(sc.ConvLines, "wrapErrors")
		conv.Set.WrapErrors = true
		for i, pr := range [][2]*space.Decl{{sa, ta}, {sb, tb}} {
			fn := fmt.Sprintf("Cv%s%d", id, i)
			sc.ConvLines = append(sc.ConvLines, "extend "+fn)
			S, T := space.N(pr[0]), space.N(pr[1])
			sc.FuncsSrc += fmt.Sprintf("func %s(s %s) (%s, error) {\n\tif s.V < 0 { return %s{}, &Boom{V: s.V} }\n\treturn %s{V: s.V + %d, S: s.S}, nil\n}\n", fn, S.Go("conv"), T.Go("conv"), T.Go("conv"), T.Go("conv"), 100*(i+1))
			conv.Extends = append(conv.Extends, &model.Custom{Name: fn, Src: S, Dst: T, Err: true})
			sc.Funcs[fn] = "conv." + fn
		}
	}
	name := "Convert"
	if format == "function" {
		name = "Convert" + id // functions of several converters share one package scope
		sc.Test = name
	}
	res := space.N(to).Go("conv")
	if hasErr {
		res = "(" + res + ", error)"
	}
	top := &model.Method{Name: name, Src: space.N(so), Dst: space.N(to), Set: conv.Set, Fields: map[string]*model.FieldCfg{}, HasErr: hasErr}
	conv.Methods = []*model.Method{top}
	sc.Methods = []*ScMethod{{Name: name, Params: "source " + space.N(so).Go("conv"), Result: res, M: top}}
	if methodNames == "clash" && format != "function" {
		// a declared method whose name equals the name goverter would give the generated sub-method for Ta→Ta'
		sub := pkgIdent(pk[0]) + sa.Name + "To" + strings.Title(pkgIdent(pk[1])) + ta.Name
		m2 := &model.Method{Name: sub, Src: space.N(sb), Dst: space.N(tb), Set: conv.Set, Fields: map[string]*model.FieldCfg{}, HasErr: hasErr}
		conv.Methods = append(conv.Methods, m2)
		r2 := space.N(tb).Go("conv")
		if hasErr {
			r2 = "(" + r2 + ", error)"
		}
		sc.Methods = append(sc.Methods, &ScMethod{Name: sub, Params: "source " + space.N(sb).Go("conv"), Result: r2, M: m2})
	}
	sc.Mode = "value,nomutate"
	if fallible {
		sc.Mode += ",wraperrors"
	}
	return sc
}

func pkgIdent(p string) string { return p }

func suffixDigits(b, a string) string { return strings.TrimPrefix(b, a) }

func C01NameScenarios(tier string) []*Scenario {
	var out []*Scenario
	n := 0
	for _, np := range c01TypeNames {
		for pi, pk := range c01PkgNames {
			for _, format := range []string{"struct", "function"} {
				for _, fallible := range []bool{false, true} {
					for _, mn := range []string{"plain"} {
						if tier != "thorough" && pi > 1 && np.a != "Address" && np.a != "Error" {
							continue
						}
						if mn == "clash" && format == "function" {
							continue
						}
						for _, nf := range []bool{false, true} {
							n++
							out = append(out, buildC01Names(fmt.Sprintf("%04d", n), np, pk, format, fallible, mn, nf))
						}
					}
				}
			}
		}
	}
	// cosmetic converter settings: name, struct:comment (one and several lines), output:raw (declarations that use the
	// generated names), in the formats where they are allowed
	for ci, cos := range [][]string{
		{"name Renamed$ID"},
		{"struct:comment first line", "struct:comment second line", "struct:comment   indented third line"},
		{"output:raw const Raw$ID = 1", "output:raw var _ = Raw$ID"},
		{"name Other$ID", "struct:comment Other$ID does things.", "output:raw var _ = &Other$ID{}", "output:raw func Helper$ID() int { return Raw2$ID }", "output:raw const Raw2$ID = 2"},
	} {
		for _, format := range []string{"struct", "function"} {
			usesStruct := false
			for _, l := range cos {
				if strings.HasPrefix(l, "name ") || strings.HasPrefix(l, "struct:comment") || strings.Contains(l, "&Other") {
					usesStruct = true
				}
			}
			if usesStruct && format == "function" {
				continue // name and struct:comment need the struct format
			}
			for _, fallible := range []bool{false, true} {
				n++
				id := fmt.Sprintf("%04d", n)
				sc := buildC01Names(id, c01TypeNames[ci%len(c01TypeNames)], c01PkgNames[0], format, fallible, "plain", false)
				sc.Desc["class"] = fmt.Sprintf("%v cosmetic=%d", sc.Desc["class"], ci)
				implName := sc.ID + "Impl"
				for _, l := range cos {
					l = strings.ReplaceAll(l, "$ID", id)
					sc.ConvLines = append(sc.ConvLines, l)
					if strings.HasPrefix(l, "name ") {
						implName = strings.TrimPrefix(l, "name ")
					}
				}
				if format == "struct" && implName != sc.ID+"Impl" {
					sc.FnExprOverride = fmt.Sprintf("(&generated.%s{}).Convert", implName)
					sc.AssertOverride = fmt.Sprintf("var _ conv.%s = &generated.%s{}", sc.ID, implName)
				}
				out = append(out, sc)
			}
		}
	}
	return out
}
