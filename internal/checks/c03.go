package checks

import (
	"fmt"
	"os"
	"strings"
	"sync"
	"time"

	"verif/internal/drive"
	"verif/internal/emit"
	"verif/internal/ev"
	"verif/internal/pool"
	"verif/internal/space"
)

const nWorkers = 16

// confirmPairCLI replays one pair case through the real CLI binary in a one-case scratch module and
// returns the outcome class observed on the product ("files", "error", "panic", "timeout").
func confirmPairCLI(cs map[string]any) (string, drive.CLIResult, error) {
	mod, err := emit.NewModule("confirm")
	if err != nil {
		return "", drive.CLIResult{}, err
	}
	defer mod.Remove()
	mod.AddUniverse(space.StdUniverse())
	var b strings.Builder
	b.WriteString(convHeader)
	b.WriteString("// goverter:converter\n")
	if ls, ok := cs["converter_lines"].([]any); ok {
		for _, l := range ls {
			fmt.Fprintf(&b, "// goverter:%s\n", l)
		}
	}
	if ls, ok := cs["converter_lines"].([]string); ok {
		for _, l := range ls {
			fmt.Fprintf(&b, "// goverter:%s\n", l)
		}
	}
	iface, _ := cs["iface"].(string)
	if iface == "" {
		iface = "C"
	}
	fmt.Fprintf(&b, "type %s interface {\n\tConvert(source %s) %s\n}\n", iface, cs["source"], cs["target"])
	mod.Add("conv/conv.go", b.String())
	if err := mod.Write(); err != nil {
		return "", drive.CLIResult{}, err
	}
	r := drive.RunCLI(mod.Dir, 120*time.Second, "gen", "./conv")
	if r.Exit == 0 {
		if b, err := os.ReadFile(mod.Dir + "/conv/generated/generated.go"); err == nil {
			r.Stdout = filesHash(map[string][]byte{"f": b})
		}
	}
	return cliClass(r), r, nil
}

func cliClass(r drive.CLIResult) string {
	switch {
	case r.Timeout:
		return "timeout"
	case r.Exit == 0:
		return "files"
	case r.Exit == 2 && strings.Contains(r.Stderr, "panic:"), strings.Contains(r.Stderr, "goroutine 1 ["):
		return "panic"
	case r.Exit == 1:
		return "error"
	}
	return fmt.Sprintf("exit%d", r.Exit)
}

// expectClass: the product outcome class a violation symptom claims.
var symptomClass = map[string]string{
	"accepted-must-fail":    "files",
	"rejected-must-succeed": "error",
	"panic":                 "panic",
	"success-without-files": "files",
	"empty-diagnostic":      "error",
	"files-on-failure":      "error",
	"diagnostic-does-not-name-declaration": "error",
}

// RunPairs is the parent side of the pair explorer for property prop (C03 or C13).
func RunPairs(run *ev.Run, tier string) {
	ps := newPairSpace(tier)
	for k, v := range ps.describe() {
		run.Cov[k] = v
	}
	counts := map[string]int{}
	confirmed, disagreements := 0, 0
	seen := map[string]bool{}
	reps := map[string]*pool.Rep{}
	crashes := pool.Run("pairs", nWorkers, []string{tier}, 100*time.Minute, func(shard int, m pool.Msg) {
		switch m.T {
		case "counts":
			for k, v := range m.Counts {
				counts[k] += v
			}
		case "sample":
			run.Sample(m.Sample)
		case "rep":
			if reps[m.Rep.Class] == nil {
				reps[m.Rep.Class] = m.Rep
			}
		case "viol":
			if m.V.Property != run.Prop {
				return
			}
			key := m.V.Site + "|" + m.V.Symptom
			counts["violating_cases"]++
			if seen[key] {
				return
			}
			seen[key] = true
			// the CLI is authoritative: replay on the product before reporting
			class, r, err := confirmPairCLI(m.V.Case)
			confirmed++
			if err != nil {
				fmt.Fprintln(os.Stderr, "confirm error:", err)
				return
			}
			if want := symptomClass[m.V.Symptom]; want != "" && class != want {
				disagreements++
				fmt.Fprintf(os.Stderr, "in-process/CLI disagreement on %v: in-process symptom %s, CLI class %s\n", m.V.Case, m.V.Symptom, class)
				return
			}
			m.V.Detail += fmt.Sprintf("\n[confirmed on the CLI: exit=%d class=%s]\n%s", r.Exit, class, firstN(r.Stderr, 600))
			run.Report(*m.V)
		}
	})
	// conformance of the in-process path with the product: one representative per equivalence class
	// (model verdict x real outcome x reason class) is generated again by the real CLI binary.
	{
		var mu sync.Mutex
		var wg sync.WaitGroup
		sem := make(chan bool, nWorkers)
		for _, rep := range reps {
			wg.Add(1)
			sem <- true
			go func(rep *pool.Rep) {
				defer wg.Done()
				defer func() { <-sem }()
				class, r, err := confirmPairCLI(rep.Case)
				mu.Lock()
				defer mu.Unlock()
				if err != nil {
					return
				}
				confirmed++
				if class != rep.Kind || (class == "files" && r.Stdout != rep.Hash) {
					disagreements++
					fmt.Fprintf(os.Stderr, "CONFORMANCE: in-process %s/%s vs CLI %s/%s for %v\n%s\n", rep.Kind, rep.Hash, class, r.Stdout, rep.Case, firstN(r.Stderr, 400))
				}
			}(rep)
		}
		wg.Wait()
		run.Cov["equivalence_classes"] = len(reps)
	}
	for _, c := range crashes {
		counts["worker_crashes"]++
		if run.Prop == "C13" {
			sym := "worker-crash"
			if c.Timeout {
				sym = "hang"
			}
			run.Report(ev.Violation{Site: "crash|" + firstLine(c.LastCase), Symptom: sym,
				Detail: fmt.Sprintf("worker %d ended abnormally while running case: %s\n%s", c.Shard, c.LastCase, c.Stderr),
				Case:   map[string]any{"kind": "pair-crash", "last_case": c.LastCase}})
		} else {
			fmt.Fprintf(os.Stderr, "worker %d crashed (case %s):\n%s\n", c.Shard, c.LastCase, c.Stderr)
			run.Cov["harness_error"] = "worker crash: " + firstN(c.Stderr, 300)
		}
	}
	for k, v := range counts {
		if strings.HasPrefix(k, "verdict:") {
			run.OutcomeN(k, v)
		}
	}
	run.Cov["evaluations"] = counts["evaluations"]
	run.Cov["distinct_nontrivial"] = counts["distinct_nontrivial_pairs"]
	run.Cov["states"] = len(ps.pairs)
	run.Cov["transitions"] = counts["transitions"]
	run.Cov["traces_validated_against_impl"] = confirmed
	run.Cov["inprocess_cli_disagreements"] = disagreements
	run.Cov["violating_cases"] = counts["violating_cases"]
	run.Cov["worker_crashes"] = counts["worker_crashes"]
	run.Cov["exhaustive"] = counts["worker_crashes"] == 0
	run.Cov["rule"] = "every ordered pair (S,T) of the depth-bounded type alphabet is one converter interface; each is generated in isolation by the real pipeline under every setting vector with ≤k deviations; states = ordered type pairs, transitions = model rule applications; non-trivial = model plan is not a bare basic copy"
}

func firstN(s string, n int) string {
	if len(s) > n {
		return s[:n] + "…"
	}
	return s
}
