package checks

import (
	"bufio"
	"bytes"
	"encoding/json"
	"fmt"
	"os"
	"os/exec"
	"path/filepath"
	"strings"
	"time"

	"verif/internal/drive"
	"verif/internal/ev"
	"verif/internal/model"
	"verif/internal/pool"
	"verif/internal/sched"
	"verif/internal/space"
	"verifrt"
)

// planSkeleton is the op structure of a plan (used to pick one representative converter per rule nesting).
func planSkeleton(ps *rt.PlanSet) string {
	var w func(p *rt.Plan, d int) string
	seen := map[string]bool{}
	w = func(p *rt.Plan, d int) string {
		if p == nil || d > 8 {
			return "-"
		}
		switch p.Op {
		case "ref":
			if seen[p.Ref] {
				return "ref^"
			}
			seen[p.Ref] = true
			return "ref(" + w(ps.Defs[p.Ref], d+1) + ")"
		case "struct":
			var fs []string
			for i := range p.Fields {
				fs = append(fs, w(p.Fields[i].Plan, d+1))
			}
			return "struct{" + strings.Join(fs, ",") + "}"
		case "map":
			return "map[" + w(p.K, d+1) + "]" + w(p.V, d+1)
		}
		if p.In != nil {
			return p.Op + "(" + w(p.In, d+1) + ")"
		}
		return p.Op
	}
	return w(ps.Root, 0)
}

// schedCorpus picks one accepted pair per plan skeleton (default vector and skipCopySameType vector).
func schedCorpus(tier string) []*RtCase {
	ps := newPairSpace(tier)
	seen := map[string]bool{}
	var out []*RtCase
	max := 60
	if tier == "thorough" {
		max = 400
	}
	for idx, pr := range ps.pairs {
		s, t := pr[0], pr[1]
		for vi, skip := range []bool{false, true} {
			set := model.Settings{SkipCopySameType: skip, EnumUnknown: "@ignore", UseZeroPtr: true}
			conv := &model.Converter{Set: set, OutPkg: "conv/generated", LitPkg: "conv"}
			meth := &model.Method{Name: "Convert", Src: s, Dst: t, Set: set}
			conv.Methods = []*model.Method{meth}
			res := model.Judge(conv, meth)
			if res.Verdict != model.OK || res.Plan.Root == nil {
				continue
			}
			if hasFeatureList(planFeatures(res.Plan), "arr2slice@assign") {
				continue // known finding: panics sequentially
			}
			if usesUnsupported(s) || usesUnsupported(t) {
				continue
			}
			sk := fmt.Sprint(skip) + "|" + planSkeleton(res.Plan)
			if seen[sk] {
				continue
			}
			seen[sk] = true
			id := fmt.Sprintf("S%07dv%d", idx, vi)
			lines := []string{"enum:unknown @ignore", "useZeroValueOnPointerInconsistency"}
			if skip {
				lines = append(lines, "skipCopySameType")
			}
			var ib strings.Builder
			ib.WriteString("// goverter:converter\n")
			for _, l := range lines {
				ib.WriteString("// goverter:" + l + "\n")
			}
			fmt.Fprintf(&ib, "type %s interface {\n\tConvert(source %s) %s\n}\n", id, s.Go("conv"), t.Go("conv"))
			out = append(out, &RtCase{ID: id, Iface: ib.String(), FnExpr: fmt.Sprintf("(&generated.%sImpl{}).Convert", id),
				Meta: map[string]any{"kind": "sched", "source": s.Go("conv"), "target": t.Go("conv"), "converter_lines": lines, "skeleton": sk}})
			if len(out) >= max {
				return out
			}
		}
	}
	return out
}

func usesUnsupported(t *space.Ty) bool {
	// function, channel and unsafe.Pointer values have no useful shared-memory content for this harness
	k := t.Key()
	return strings.Contains(k, "func") || strings.Contains(k, "chan") || strings.Contains(k, "unsafe.Pointer")
}

func hasFeatureList(l []string, f string) bool {
	for _, x := range l {
		if x == f {
			return true
		}
	}
	return false
}

type schedResult struct {
	ID           string   `json:"id"`
	Values       int      `json:"values"`
	Executions   int      `json:"executions"`
	MaxDecisions int      `json:"max_decisions"`
	MaxSteps     int      `json:"max_steps"`
	Outcomes     int      `json:"outcomes"`
	Problems     []string `json:"problems"`
	Capped       bool     `json:"capped"`
}

// SchedWorker: shard of the representative converters → CLI generation → instrumentation → exhaustive interleavings;
// then the same bodies free-running under the race detector.
func SchedWorker(w *pool.W, shard, n int, tier string) error {
	all := schedCorpus(tier)
	var mine []*RtCase
	for i := shard; i < len(all); i += n {
		mine = append(mine, all[i])
	}
	if len(mine) == 0 {
		return nil
	}
	b := &Batch{U: space.StdUniverse(), Cases: mine}
	defer b.Cleanup()
	if err := b.write(); err != nil {
		return err
	}
	r := drive.RunCLI(b.Mod.Dir, 10*time.Minute, "gen", "./conv")
	if r.Exit != 0 {
		w.Viol(ev.Violation{Property: "HARNESS", Site: "sched-cli", Symptom: "cli-failed", Detail: firstN(r.Stderr, 2000)})
		return nil
	}
	genPath := filepath.Join(b.Mod.Dir, "conv", "generated", "generated.go")
	orig, err := os.ReadFile(genPath)
	if err != nil {
		return err
	}
	threads, bound := 2, 2
	if tier == "thorough" {
		threads = 3
	}
	mainSrc := func(kind string) string {
		var m strings.Builder
		m.WriteString("package main\n\nimport (\n\trt \"verifrt\"\n\t\"unsafe\"\n\n\t\"vx/conv/generated\"\n\t\"vx/in\"\n\t\"vx/out\"\n)\n\nvar (\n\t_ unsafe.Pointer\n\t_ in.MyInt\n\t_ out.MyInt\n)\n\nfunc main() {\n")
		for _, c := range mine {
			fmt.Fprintf(&m, "\trt.RegisterSched(rt.SchedCase{ID: %q, Fn: %s})\n", c.ID, c.FnExpr)
		}
		if kind == "sched" {
			m.WriteString("\trt.SchedMain()\n}\n")
		} else {
			m.WriteString("\trt.RaceMain()\n}\n")
		}
		return m.String()
	}
	byID := map[string]*RtCase{}
	for _, c := range mine {
		byID[c.ID] = c
	}
	// --- pass 1: controlled scheduler over instrumented code
	inst, points, writes, err := sched.Instrument("generated.go", orig)
	if err != nil {
		return err
	}
	w.CountN("sched_points_inserted", points)
	w.CountN("sched_write_hooks_inserted", writes)
	if err := os.WriteFile(genPath, inst, 0o644); err != nil {
		return err
	}
	if err := os.WriteFile(filepath.Join(b.Mod.Dir, "main.go"), []byte(mainSrc("sched")), 0o644); err != nil {
		return err
	}
	br := drive.RunGo(b.Mod.Dir, 15*time.Minute, "build", "-o", "sched.bin", ".")
	if br.Exit != 0 {
		w.Viol(ev.Violation{Property: "HARNESS", Site: "sched-build", Symptom: "instrumented-code-does-not-build", Detail: firstN(br.Stderr, 3000)})
		return nil
	}
	w.Begin("sched batch")
	cmd := exec.Command(filepath.Join(b.Mod.Dir, "sched.bin"))
	cmd.Env = append(os.Environ(), fmt.Sprintf("VERIF_SCHED_THREADS=%d", threads), fmt.Sprintf("VERIF_SCHED_BOUND=%d", bound))
	var so, se bytes.Buffer
	cmd.Stdout, cmd.Stderr = &so, &se
	if err := cmd.Run(); err != nil {
		w.Viol(ev.Violation{Property: "HARNESS", Site: "sched-run", Symptom: "scheduler-harness-died", Detail: firstN(se.String(), 3000)})
		return nil
	}
	sc := bufio.NewScanner(&so)
	sc.Buffer(make([]byte, 1<<20), 64<<20)
	for sc.Scan() {
		var sr schedResult
		if json.Unmarshal(sc.Bytes(), &sr) != nil || sr.ID == "" {
			continue
		}
		c := byID[sr.ID]
		w.Count("sched_cases")
		w.CountN("sched_executions", sr.Executions)
		w.CountN("sched_values", sr.Values)
		w.CountN("sched_outcomes", sr.Outcomes)
		if sr.Capped {
			w.Count("sched_capped_cases")
		}
		w.Count("out:sched/" + map[bool]string{true: "problem", false: "clean"}[len(sr.Problems) > 0])
		if sr.MaxDecisions > 0 {
			w.Sample(map[string]any{"engine": "sched", "case": c.Meta["source"].(string) + " → " + c.Meta["target"].(string), "executions": sr.Executions, "max_decisions": sr.MaxDecisions, "steps": sr.MaxSteps, "threads": threads, "preemption_bound": bound})
		}
		for _, p := range sr.Problems {
			w.Viol(ev.Violation{Property: "C04", Site: "sched|" + schedClass(p) + "|" + fmt.Sprint(c.Meta["skeleton"]), Symptom: schedClass(p),
				Detail: fmt.Sprintf("%s → %s %v\n%s", c.Meta["source"], c.Meta["target"], c.Meta["converter_lines"], p), Case: c.Meta})
		}
	}
	// --- pass 2: free-running race detector over the uninstrumented code (the cooperative scheduler's hand-offs are
	// happens-before edges that would blind the detector)
	if err := os.WriteFile(genPath, orig, 0o644); err != nil {
		return err
	}
	if err := os.WriteFile(filepath.Join(b.Mod.Dir, "main.go"), []byte(mainSrc("race")), 0o644); err != nil {
		return err
	}
	rr := drive.RunGo(b.Mod.Dir, 15*time.Minute, "build", "-race", "-o", "race.bin", ".")
	if rr.Exit != 0 {
		w.Note("race build failed: " + firstN(rr.Stderr, 500))
		w.Count("race_pass_unavailable")
		return nil
	}
	cmd = exec.Command(filepath.Join(b.Mod.Dir, "race.bin"))
	cmd.Env = append(os.Environ(), "GORACE=halt_on_error=0 exitcode=66")
	so.Reset()
	se.Reset()
	cmd.Stdout, cmd.Stderr = &so, &se
	_ = cmd.Run()
	w.CountN("race_cases", len(mine))
	if strings.Contains(se.String(), "WARNING: DATA RACE") {
		// attribute to the case that was running (marker lines on stderr)
		last := ""
		for _, l := range strings.Split(se.String(), "\n") {
			if strings.HasPrefix(l, "\x01B ") {
				last = l[3:]
			}
			if strings.Contains(l, "WARNING: DATA RACE") {
				c := byID[last]
				meta := map[string]any{}
				if c != nil {
					meta = c.Meta
				}
				w.Viol(ev.Violation{Property: "C04", Site: "race|" + fmt.Sprint(meta["skeleton"]), Symptom: "data-race",
					Detail: fmt.Sprintf("race detector report while calling %v concurrently on one source:\n%s", meta["source"], firstN(se.String()[strings.Index(se.String(), "WARNING: DATA RACE"):], 2500)), Case: meta})
				break
			}
		}
	}
	return nil
}

func schedClass(p string) string {
	switch {
	case strings.Contains(p, "writes into shared"):
		return "write-into-shared-source"
	case strings.Contains(p, "package-level"):
		return "write-to-package-state"
	case strings.Contains(p, "result differs"):
		return "result-depends-on-schedule"
	case strings.Contains(p, "source changed"):
		return "source-changed"
	case strings.Contains(p, "panicked"):
		return "panic-under-schedule"
	}
	return "scheduler-problem"
}
