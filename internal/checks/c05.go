package checks

import (
	"fmt"
	"strings"

	"verif/internal/model"
	"verif/internal/space"
)

// ---- C05 scenario family: struct field deviations × field-setting deviations × placements ----

type srcVariant struct {
	name string
	// build returns the source struct declaration plus helper declarations for scenario id
	build func(id string) (*space.Decl, []*space.Decl)
}

var (
	tInt = space.B("int")
	tStr = space.B("string")
)

func f(n string, t *space.Ty) space.Field { return space.F(n, t) }

func c05Sources() []srcVariant {
	mk := func(name string, fs ...space.Field) srcVariant {
		return srcVariant{name, func(id string) (*space.Decl, []*space.Decl) {
			return &space.Decl{Pkg: "in", Name: "S" + id, Under: space.St(fs...)}, nil
		}}
	}
	nested := func(name string, ptr int, inner ...space.Field) srcVariant {
		return srcVariant{name, func(id string) (*space.Decl, []*space.Decl) {
			n := &space.Decl{Pkg: "in", Name: "N" + id, Under: space.St(inner...)}
			var nt *space.Ty = space.N(n)
			for i := 0; i < ptr; i++ {
				nt = space.P(nt)
			}
			s := &space.Decl{Pkg: "in", Name: "S" + id, Under: space.St(f("B", tStr), f("Name", tStr), f("N", nt))}
			return s, []*space.Decl{n}
		}}
	}
	method := func(name string, ptrRecv, err bool) srcVariant {
		return srcVariant{name, func(id string) (*space.Decl, []*space.Decl) {
			body := "return r.Hidden * 10"
			if err {
				body = "return r.Hidden * 10, nil"
			}
			s := &space.Decl{Pkg: "in", Name: "S" + id, Under: space.St(f("Hidden", tInt), f("B", tStr), f("Name", tStr)),
				Methods: []space.Method{{Name: "A", Result: tInt, Err: err, PtrRecv: ptrRecv, Body: body}}}
			return s, nil
		}}
	}
	return []srcVariant{
		mk("base", f("A", tInt), f("B", tStr), f("Name", tStr)),
		mk("renamed", f("A2", tInt), f("B", tStr), f("Name", tStr)),
		mk("recased", f("A", tInt), f("B", tStr), f("NAME", tStr)),
		mk("case-twins-with-exact", f("A", tInt), f("B", tStr), f("Name", tStr), f("NAME", tStr)),
		mk("case-twins-loose", f("A", tInt), f("B", tStr), f("NAME", tStr), f("NaMe", tStr)),
		nested("nested", 0, f("A", tInt)),
		nested("nested-ptr", 1, f("A", tInt)),
		srcVariant{"nested-2ptr", func(id string) (*space.Decl, []*space.Decl) {
			m := &space.Decl{Pkg: "in", Name: "M" + id, Under: space.St(f("A", tInt))}
			n := &space.Decl{Pkg: "in", Name: "N" + id, Under: space.St(f("M", space.P(space.N(m))))}
			s := &space.Decl{Pkg: "in", Name: "S" + id, Under: space.St(f("B", tStr), f("Name", tStr), f("N", space.P(space.N(n))))}
			return s, []*space.Decl{n, m}
		}},
		// unexported members behind value / pointer hops (the source package is not the output package)
		nested("nested-unexported", 0, f("a", tInt), f("Other", tInt)),
		nested("nested-ptr-unexported", 1, f("a", tInt), f("Other", tInt)),
		srcVariant{"nested-2ptr-unexported", func(id string) (*space.Decl, []*space.Decl) {
			m := &space.Decl{Pkg: "in", Name: "M" + id, Under: space.St(f("a", tInt), f("Other", tInt))}
			n := &space.Decl{Pkg: "in", Name: "N" + id, Under: space.St(f("M", space.P(space.N(m))), f("m", space.P(space.N(m))))}
			s := &space.Decl{Pkg: "in", Name: "S" + id, Under: space.St(f("B", tStr), f("Name", tStr), f("N", space.P(space.N(n))))}
			return s, []*space.Decl{n, m}
		}},
		srcVariant{"nested-ptr-unexported-method", func(id string) (*space.Decl, []*space.Decl) {
			n := &space.Decl{Pkg: "in", Name: "N" + id, Under: space.St(f("Other", tInt)),
				Methods: []space.Method{{Name: "a", Result: tInt, Body: "return r.Other * 10"}}}
			s := &space.Decl{Pkg: "in", Name: "S" + id, Under: space.St(f("B", tStr), f("Name", tStr), f("N", space.P(space.N(n))))}
			return s, []*space.Decl{n}
		}},
		// two sub-structs of ONE named type: autoMap of both makes every field of that type ambiguous
		srcVariant{"two-substructs-same-type", func(id string) (*space.Decl, []*space.Decl) {
			n := &space.Decl{Pkg: "in", Name: "N" + id, Under: space.St(f("A", tInt))}
			s := &space.Decl{Pkg: "in", Name: "S" + id, Under: space.St(f("B", tStr), f("Name", tStr), f("N", space.N(n)), f("N2", space.N(n)))}
			return s, []*space.Decl{n}
		}},
		srcVariant{"two-substructs-same-type-ptr", func(id string) (*space.Decl, []*space.Decl) {
			n := &space.Decl{Pkg: "in", Name: "N" + id, Under: space.St(f("A", tInt))}
			s := &space.Decl{Pkg: "in", Name: "S" + id, Under: space.St(f("B", tStr), f("Name", tStr), f("N", space.P(space.N(n))), f("N2", space.N(n)))}
			return s, []*space.Decl{n}
		}},
		// three and four pointer hops on the way to the field: every single nil must yield the zero value, not a panic
		srcVariant{"nested-3ptr", func(id string) (*space.Decl, []*space.Decl) {
			k := &space.Decl{Pkg: "in", Name: "K" + id, Under: space.St(f("A", tInt))}
			m := &space.Decl{Pkg: "in", Name: "M" + id, Under: space.St(f("K", space.P(space.N(k))))}
			n := &space.Decl{Pkg: "in", Name: "N" + id, Under: space.St(f("M", space.P(space.N(m))))}
			s := &space.Decl{Pkg: "in", Name: "S" + id, Under: space.St(f("B", tStr), f("Name", tStr), f("N", space.P(space.N(n))))}
			return s, []*space.Decl{n, m, k}
		}},
		srcVariant{"nested-4ptr", func(id string) (*space.Decl, []*space.Decl) {
			l := &space.Decl{Pkg: "in", Name: "L" + id, Under: space.St(f("A", tInt))}
			k := &space.Decl{Pkg: "in", Name: "K" + id, Under: space.St(f("L", space.P(space.N(l))))}
			m := &space.Decl{Pkg: "in", Name: "M" + id, Under: space.St(f("K", space.P(space.N(k))))}
			n := &space.Decl{Pkg: "in", Name: "N" + id, Under: space.St(f("M", space.P(space.N(m))))}
			s := &space.Decl{Pkg: "in", Name: "S" + id, Under: space.St(f("B", tStr), f("Name", tStr), f("N", space.P(space.N(n))))}
			return s, []*space.Decl{n, m, k, l}
		}},
		// embedded struct fields: the field is named like its type; its fields are not promoted into the match
		srcVariant{"embedded", func(id string) (*space.Decl, []*space.Decl) {
			n := &space.Decl{Pkg: "in", Name: "E" + id, Under: space.St(f("A", tInt), f("Other", tInt))}
			s := &space.Decl{Pkg: "in", Name: "S" + id, Under: space.St(space.Field{Name: "E" + id, T: space.N(n), Embedded: true}, f("B", tStr), f("Name", tStr))}
			return s, []*space.Decl{n}
		}},
		srcVariant{"embedded-ptr", func(id string) (*space.Decl, []*space.Decl) {
			n := &space.Decl{Pkg: "in", Name: "E" + id, Under: space.St(f("A", tInt), f("Other", tInt))}
			s := &space.Decl{Pkg: "in", Name: "S" + id, Under: space.St(space.Field{Name: "E" + id, T: space.P(space.N(n)), Embedded: true}, f("B", tStr), f("Name", tStr))}
			return s, []*space.Decl{n}
		}},
		srcVariant{"embedded-shadowing-own-field", func(id string) (*space.Decl, []*space.Decl) {
			// the outer struct has its own A next to the embedded struct's A
			n := &space.Decl{Pkg: "in", Name: "E" + id, Under: space.St(f("A", tInt))}
			s := &space.Decl{Pkg: "in", Name: "S" + id, Under: space.St(space.Field{Name: "E" + id, T: space.N(n), Embedded: true}, f("A", tInt), f("B", tStr), f("Name", tStr))}
			return s, []*space.Decl{n}
		}},
		mk("dropped", f("B", tStr), f("Name", tStr)),
		method("method", false, false),
		method("method-ptr-recv", true, false),
		method("method-err", false, true),
		mk("unexported-source", f("a", tInt), f("B", tStr), f("Name", tStr)),
		srcVariant{"nested-overlap", func(id string) (*space.Decl, []*space.Decl) {
			n := &space.Decl{Pkg: "in", Name: "N" + id, Under: space.St(f("A", tInt), f("Name", tStr))}
			s := &space.Decl{Pkg: "in", Name: "S" + id, Under: space.St(f("A", tInt), f("B", tStr), f("Name", tStr), f("N", space.N(n)))}
			return s, []*space.Decl{n}
		}},
		srcVariant{"nested-loose-overlap", func(id string) (*space.Decl, []*space.Decl) {
			// own field matches only case-insensitively, autoMap source matches exactly
			n := &space.Decl{Pkg: "in", Name: "N" + id, Under: space.St(f("Name", tStr))}
			s := &space.Decl{Pkg: "in", Name: "S" + id, Under: space.St(f("A", tInt), f("B", tStr), f("NAME", tStr), f("N", space.N(n)))}
			return s, []*space.Decl{n}
		}},
		srcVariant{"recased-field-plus-method", func(id string) (*space.Decl, []*space.Decl) {
			s := &space.Decl{Pkg: "in", Name: "S" + id, Under: space.St(f("A", tInt), f("B", tStr), f("NAME", tStr)),
				Methods: []space.Method{{Name: "Name", Result: tStr, Body: `return "m:" + r.NAME`}}}
			return s, nil
		}},
		srcVariant{"recased-field-plus-recased-method", func(id string) (*space.Decl, []*space.Decl) {
			s := &space.Decl{Pkg: "in", Name: "S" + id, Under: space.St(f("A", tInt), f("B", tStr), f("NAME", tStr)),
				Methods: []space.Method{{Name: "NaMe", Result: tStr, Body: `return "m:" + r.NAME`}}}
			return s, nil
		}},
	}
}

type tgtVariant struct {
	name  string
	build func(id string, src *space.Decl) (*space.Decl, []*space.Decl)
}

func c05Targets() []tgtVariant {
	mk := func(name string, fs ...space.Field) tgtVariant {
		return tgtVariant{name, func(id string, _ *space.Decl) (*space.Decl, []*space.Decl) {
			return &space.Decl{Pkg: "out", Name: "T" + id, Under: space.St(fs...)}, nil
		}}
	}
	return []tgtVariant{
		mk("base", f("A", tInt), f("B", tStr), f("Name", tStr)),
		mk("extra-field", f("A", tInt), f("B", tStr), f("Name", tStr), f("D", tInt)),
		mk("unexported-field", f("A", tInt), f("B", tStr), f("Name", tStr), f("x", tInt)),
		mk("pointer-field", f("A", space.P(tInt)), f("B", tStr), f("Name", tStr)),
		// W takes the whole source struct (goverter:map . W): a named target struct with a subset of the fields
		{"whole-field", func(id string, _ *space.Decl) (*space.Decl, []*space.Decl) {
			w := &space.Decl{Pkg: "out", Name: "W" + id, Under: space.St(f("A", tInt), f("B", tStr))}
			return &space.Decl{Pkg: "out", Name: "T" + id, Under: space.St(f("A", tInt), f("B", tStr), f("Name", tStr), f("W", space.N(w)))}, []*space.Decl{w}
		}},
	}
}

// c05Menu: method-level field setting lines.
var c05Menu = []string{
	"map A2 A", "map NAME Name", "map N.A A", "map N.M.A A", "map Hidden A",
	"ignore A", "ignore D", "ignore x", "ignore Nope",
	"autoMap N", "autoMap N.M", "autoMap Nope", "autoMap N2",
	"matchIgnoreCase", "ignoreMissing", "ignoreUnexported",
	"map Nope A", "map B.X A", "map B A",
	"autoMap E$ID", "map E$ID.A A", "map E$ID.Other A",
	"map N.M.K.A A", "map N.M.K.L.A A", "autoMap N.M.K", "autoMap N.M.K.L",
	"map N.a A", "map N.M.a A", "map N.m.Other A", "map N.Other A",
	"map . W", "map . A", "ignore A D", "ignore W A", "ignore A B Name", "map N W",
}

func lineSubsets(menu []string, k int) [][]string {
	out := [][]string{{}}
	if k >= 1 {
		for _, a := range menu {
			out = append(out, []string{a})
		}
	}
	if k >= 2 {
		for i, a := range menu {
			for _, b := range menu[i+1:] {
				out = append(out, []string{a, b})
			}
		}
	}
	return out
}

// applyMethodLines parses the lines (a tiny independent re-statement of the documented syntax) into the model method.
func applyMethodLines(m *model.Method, lines []string) {
	for _, l := range lines {
		parts := strings.Fields(l)
		switch parts[0] {
		case "map":
			fc := m.Fields[parts[len(parts)-1]]
			if fc == nil {
				fc = &model.FieldCfg{}
				m.Fields[parts[len(parts)-1]] = fc
			}
			if len(parts) == 3 {
				fc.Source = parts[1]
			}
			m.NFieldSettings++
		case "ignore":
			for _, n := range parts[1:] {
				fc := m.Fields[n]
				if fc == nil {
					fc = &model.FieldCfg{}
					m.Fields[n] = fc
				}
				fc.Ignore = true
			}
			m.NFieldSettings++
		case "autoMap":
			m.AutoMap = append(m.AutoMap, parts[1])
			m.NFieldSettings++
		case "matchIgnoreCase":
			m.Set.MatchIgnoreCase = true
			m.NFieldSettings++
		case "ignoreMissing":
			m.Set.IgnoreMissing = true
			m.NFieldSettings++
		case "ignoreUnexported":
			m.Set.IgnoreUnexported = true
			m.NFieldSettings++
		}
	}
}

// C05Scenarios enumerates the family. devS: include all source variants; k: setting deviations.
func C05Scenarios(tier string) []*Scenario { return c05Build(tier, 0, 1) }

// c05Build builds the scenarios with index ≡ shard (mod n) only (the thorough space is too large to hold in every worker).
func c05Build(tier string, shard, nShards int) []*Scenario {
	k := 2
	srcs, tgts := c05Sources(), c05Targets()
	placements := []string{"direct", "reused-by-slice", "pointer-variant", "sibling-pointer-without-lines", "lines-on-pointer-sibling", "lines-on-both-variants", "lines-on-value-and-mixed-variant"}
	if tier != "thorough" {
		// quick: two setting deviations only on the direct placement; one deviation elsewhere
	}
	var out []*Scenario
	n := 0
	for si, sv := range srcs {
		for ti, tv := range tgts {
			for pi, pl := range placements {
				kk := k
				if tier != "thorough" && (pi > 0 || ti > 1) {
					kk = 1
				}
				if tier == "thorough" && pi > 1 {
					kk = 1 // thorough: all pairs of lines on the direct and the reused placement, single lines elsewhere
				}
				for _, lines := range lineSubsets(c05Menu, kk) {
					n++
					if n%nShards != shard {
						continue
					}
					id := fmt.Sprintf("F%05d", n)
					if len(lines) > 0 {
						ls := make([]string, len(lines))
						for i, l := range lines {
							ls[i] = strings.ReplaceAll(l, "$ID", id)
						}
						lines = ls
					}
					s, sh := sv.build(id)
					t, th := tv.build(id, s)
					sc := &Scenario{ID: "Q" + id, PropGen: "C05", PropVal: "C05", Test: "Convert",
						Desc: map[string]any{"class": fmt.Sprintf("src=%s tgt=%s place=%s", sv.name, tv.name, pl), "lines": lines, "si": si, "ti": ti}}
					sc.Decls = append(append([]*space.Decl{s, t}, sh...), th...)
					sT, tT := space.N(s), space.N(t)
					conv := &model.Converter{OutPkg: "conv/generated", LitPkg: "conv"}
					sc.Conv = conv
					add := func(name string, src, dst *space.Ty, ls []string) *ScMethod {
						mm := &model.Method{Name: name, Src: src, Dst: dst, Fields: map[string]*model.FieldCfg{}}
						applyMethodLines(mm, ls)
						conv.Methods = append(conv.Methods, mm)
						m := &ScMethod{Name: name, Params: "source " + src.Go("conv"), Result: dst.Go("conv"), Lines: ls, M: mm}
						sc.Methods = append(sc.Methods, m)
						return m
					}
					switch pl {
					case "direct":
						add("Convert", sT, tT, lines)
					case "reused-by-slice":
						add("Convert", space.S(sT), space.S(tT), nil)
						add("Item", sT, tT, lines)
					case "pointer-variant":
						add("Convert", space.P(sT), space.P(tT), lines)
					case "sibling-pointer-without-lines":
						add("Convert", sT, tT, lines)
						add("Other", space.P(sT), space.P(tT), nil)
					case "lines-on-pointer-sibling":
						add("Convert", sT, tT, nil)
						add("Ptr", space.P(sT), space.P(tT), lines)
					case "lines-on-both-variants":
						// both the value method and its pointer variant carry field settings: one of them would be bypassed
						add("Convert", sT, tT, lines)
						add("Ptr", space.P(sT), space.P(tT), lines)
					case "lines-on-value-and-mixed-variant":
						add("Convert", sT, tT, lines)
						add("Mixed", sT, space.P(tT), lines)
					}
					// method sources with error need an error result on the method to be usable; covered in C07.
					out = append(out, sc)
				}
			}
		}
	}
	for i, sc := range samePackageScenarios(&n) {
		if i%nShards == shard {
			out = append(out, sc)
		}
	}
	return out
}

// samePackageScenarios: the generated code lives in the package of the target struct (goverter:variables in package
// conv, target declared in conv), so unexported target fields are reachable: ignoreUnexported / ignore / ignoreMissing must
// still leave them alone, and without such a setting they need a source like any other field.
func samePackageScenarios(n *int) []*Scenario {
	var out []*Scenario
	menu := []string{"ignoreUnexported", "ignore x", "ignoreMissing", "matchIgnoreCase", "map A x", "map X x", "ignore A"}
	type srcKind struct {
		name  string
		local bool
		fs    []space.Field
	}
	srcs := []srcKind{
		{"other-package-source", false, []space.Field{f("A", tInt), f("B", tStr), f("Name", tStr)}},
		{"other-package-source-with-X", false, []space.Field{f("A", tInt), f("B", tStr), f("Name", tStr), f("X", tInt)}},
		{"same-package-source-with-x", true, []space.Field{f("A", tInt), f("B", tStr), f("Name", tStr), f("x", tInt)}},
	}
	for _, sk := range srcs {
		for _, place := range []string{"direct", "reused-by-slice", "converter-level"} {
			for _, lines := range lineSubsets(menu, 2) {
				*n++
				id := fmt.Sprintf("F%05d", *n)
				sc := &Scenario{ID: "Q" + id, PropGen: "C05", PropVal: "C05", Test: "Convert" + id, Variables: true, Funcs: map[string]string{},
					Desc: map[string]any{"class": fmt.Sprintf("same-package-output src=%s place=%s", sk.name, place), "lines": lines}}
				td := &space.Decl{Pkg: "conv", Name: "LT" + id, Under: space.St(f("A", tInt), f("B", tStr), f("Name", tStr), f("x", tInt))}
				sd := &space.Decl{Pkg: "in", Name: "S" + id, Under: space.St(sk.fs...)}
				if sk.local {
					sd.Pkg, sd.Name = "conv", "LS"+id
					sc.FuncsSrc += sd.Source()
				} else {
					sc.Decls = append(sc.Decls, sd)
				}
				sc.FuncsSrc += td.Source()
				sT, tT := space.N(sd), space.N(td)
				conv := &model.Converter{OutPkg: "conv", LitPkg: "conv"}
				sc.Conv = conv
				add := func(name string, src, dst *space.Ty, ls []string) {
					mm := &model.Method{Name: name, Src: src, Dst: dst, Set: conv.Set, Fields: map[string]*model.FieldCfg{}}
					applyMethodLines(mm, ls)
					conv.Methods = append(conv.Methods, mm)
					sc.Methods = append(sc.Methods, &ScMethod{Name: name, Params: "source " + src.Go("conv"), Result: dst.Go("conv"), Lines: ls, M: mm})
				}
				switch place {
				case "direct":
					add("Convert"+id, sT, tT, lines)
				case "reused-by-slice":
					add("Convert"+id, space.S(sT), space.S(tT), nil)
					add("Item"+id, sT, tT, lines)
				case "converter-level":
					// only the inheritable settings can be written on the variables block
					var cl, ml []string
					for _, l := range lines {
						if strings.HasPrefix(l, "ignoreUnexported") || strings.HasPrefix(l, "ignoreMissing") || strings.HasPrefix(l, "matchIgnoreCase") {
							cl = append(cl, l)
						} else {
							ml = append(ml, l)
						}
					}
					sc.ConvLines = cl
					tmp := &model.Method{Fields: map[string]*model.FieldCfg{}}
					applyMethodLines(tmp, cl)
					conv.Set = tmp.Set
					add("Convert"+id, space.S(sT), space.S(tT), nil)
					add("Item"+id, sT, tT, ml)
				}
				sc.Mode = "value,nomutate"
				out = append(out, sc)
			}
		}
	}
	return out
}
