package checks

import (
	"fmt"
	"strings"

	"verif/internal/model"
	"verif/internal/space"
)

const werrSource = `package werr

import "fmt"

type Element string

func Field(n string) Element { return Element("F:" + n) }
func Index(i int) Element    { return Element(fmt.Sprintf("I:%d", i)) }
func Key(k any) Element      { return Element(fmt.Sprintf("K:%v", k)) }

type E struct {
	Err  error
	Path []string
}

func (e *E) Error() string                { return fmt.Sprintf("%v: %v", e.Path, e.Err) }
func (e *E) Unwrap() error                { return e.Err }
func (e *E) VerifPath() ([]string, error) { return e.Path, e.Err }
func (e *E) VerifPkg() string             { return "werr" }

func Wrap(err error, path ...Element) error {
	p := make([]string, len(path))
	for i, x := range path {
		p[i] = string(x)
	}
	return &E{Err: err, Path: p}
}
`

const boomSource = `
type Boom struct{ V int }

func (b *Boom) Error() string         { return fmt.Sprintf("boom %d", b.V) }
func (b *Boom) VerifSentinel() string { return "boom" }
`

// nesting wraps the leaf pair into a bigger pair. Named struct wrappers get fresh declarations.
type nesting struct {
	name string
	wrap func(id string, lvl int, s, t *space.Ty) (*space.Ty, *space.Ty, []*space.Decl)
}

func c06Nestings() []nesting {
	simple := func(name string, f func(x *space.Ty) *space.Ty) nesting {
		return nesting{name, func(id string, lvl int, s, t *space.Ty) (*space.Ty, *space.Ty, []*space.Decl) {
			return f(s), f(t), nil
		}}
	}
	return []nesting{
		simple("ptr", space.P),
		simple("slice", space.S),
		simple("mapval", func(x *space.Ty) *space.Ty { return space.M(tStr, x) }),
		simple("mapkey", func(x *space.Ty) *space.Ty { return space.M(x, tStr) }),
		{"mapval-enumkey", func(id string, lvl int, s, t *space.Ty) (*space.Ty, *space.Ty, []*space.Decl) {
			u := space.StdUniverse()
			return space.M(space.N(u.Get("in", "KE")), s), space.M(space.N(u.Get("out", "KE")), t), nil
		}},
		simple("ustruct", func(x *space.Ty) *space.Ty { return space.St(f("F", x), f("Z", tInt)) }),
		{"recursive-next-first", func(id string, lvl int, s, t *space.Ty) (*space.Ty, *space.Ty, []*space.Decl) {
			ws := &space.Decl{Pkg: "in", Name: fmt.Sprintf("R%d%s", lvl, id)}
			wt := &space.Decl{Pkg: "out", Name: fmt.Sprintf("R%d%s", lvl, id)}
			ws.Under = space.St(f("Next", space.P(space.N(ws))), f("F", s))
			wt.Under = space.St(f("Next", space.P(space.N(wt))), f("F", t))
			return space.N(ws), space.N(wt), []*space.Decl{ws, wt}
		}},
		{"recursive-next-last", func(id string, lvl int, s, t *space.Ty) (*space.Ty, *space.Ty, []*space.Decl) {
			ws := &space.Decl{Pkg: "in", Name: fmt.Sprintf("R%d%s", lvl, id)}
			wt := &space.Decl{Pkg: "out", Name: fmt.Sprintf("R%d%s", lvl, id)}
			ws.Under = space.St(f("F", s), f("Kids", space.S(space.N(ws))))
			wt.Under = space.St(f("F", t), f("Kids", space.S(space.N(wt))))
			return space.N(ws), space.N(wt), []*space.Decl{ws, wt}
		}},
		{"nstruct", func(id string, lvl int, s, t *space.Ty) (*space.Ty, *space.Ty, []*space.Decl) {
			ws := &space.Decl{Pkg: "in", Name: fmt.Sprintf("W%d%s", lvl, id), Under: space.St(f("F", s), f("Z", tInt))}
			wt := &space.Decl{Pkg: "out", Name: fmt.Sprintf("W%d%s", lvl, id), Under: space.St(f("F", t), f("Z", tInt))}
			return space.N(ws), space.N(wt), []*space.Decl{ws, wt}
		}},
	}
}

// customForm describes how the custom function for the leaf pair is supplied.
type customForm struct {
	name     string
	fallible bool
}

var c06Forms = []customForm{
	{"extend-local", false}, {"extend-pkg", false}, {"extend-regex", false}, {"extend-conv-arg", false},
	{"extend-error", true}, {"declared-method", false}, {"underlying", false}, {"underlying-src", false}, {"underlying-dst", false}, {"underlying-enum", false}, {"underlying-ctx-missing", false}, {"underlying-ctx-available", false},
	{"extend-ctx-int", false}, {"extend-ctx-needs-missing", false}, {"extend-ctx-of-two", false}, {"extend-ctx-regex", false},
	{"extend-error-ctx", true},
	{"extend-sametype", false}, {"extend-sametype-skipcopy", false},
	{"declared-method-ctx-missing", false}, {"declared-method-ctx-available", false},
	{"extend-regex-ctx", false},
}

// ctxLayout: where the context arguments of the top method stand.
type ctxLayout struct {
	name   string
	params func(src string) (params string, srcIdx int, ctxIdx []int, ctxTypes []*space.Ty, lines []string)
}

// buildC06 creates one scenario: custom form × nesting path × wrap mode.
func buildC06(id string, form customForm, nest []nesting, wrapMode string, propGen, propVal string) *Scenario {
	sc := &Scenario{ID: "K" + id, PropGen: propGen, PropVal: propVal, Test: "Convert",
		Desc: map[string]any{"form": form.name, "wrap": wrapMode}, Funcs: map[string]string{}}
	conv := &model.Converter{OutPkg: "conv/generated", LitPkg: "conv"}
	sc.Conv = conv
	var nestNames []string
	for _, n := range nest {
		nestNames = append(nestNames, n.name)
	}
	sc.Desc["nesting"] = strings.Join(nestNames, ">")
	sc.Desc["class"] = fmt.Sprintf("form=%s nest=%s wrap=%s", form.name, strings.Join(nestNames, ">"), wrapMode)

	// leaf pair
	var s0, t0 *space.Ty
	if strings.HasPrefix(form.name, "underlying") {
		ls := &space.Decl{Pkg: "in", Name: "U" + id, Under: tInt}
		lt := &space.Decl{Pkg: "out", Name: "U" + id, Under: tStr}
		if strings.HasPrefix(form.name, "underlying-ctx") {
			// named ints on both sides: without the extend the pair would be a plain cast
			lt.Under = tInt
		}
		if form.name == "underlying-enum" {
			// both sides are enums by definition: the pair qualifies for enum conversion and for the underlying extend
			ls.Consts = []space.Const{{Name: "U" + id + "A", Lit: "1"}}
			lt.Consts = []space.Const{{Name: "U" + id + "A", Lit: `"a"`}}
		}
		sc.Decls = append(sc.Decls, ls, lt)
		s0, t0 = space.N(ls), space.N(lt)
		switch form.name {
		case "underlying-src":
			t0 = tStr // named source, plain target: only the source is unwrapped
		case "underlying-dst":
			s0 = tInt // plain source, named target: only the result is wrapped
		}
	} else if strings.HasPrefix(form.name, "declared-method-ctx") {
		// the leaf contains a further named struct, so converting it needs a sub-method of its own
		is := &space.Decl{Pkg: "in", Name: "I" + id, Under: space.St(f("Q", tInt))}
		it := &space.Decl{Pkg: "out", Name: "I" + id, Under: space.St(f("Q", tInt))}
		ls := &space.Decl{Pkg: "in", Name: "L" + id, Under: space.St(f("V", tInt), f("W", tInt), f("I", space.N(is)))}
		lt := &space.Decl{Pkg: "out", Name: "L" + id, Under: space.St(f("V", tInt), f("W", tInt), f("I", space.N(it)))}
		sc.Decls = append(sc.Decls, ls, lt, is, it)
		s0, t0 = space.N(ls), space.N(lt)
	} else if strings.HasPrefix(form.name, "extend-sametype") {
		ls := &space.Decl{Pkg: "in", Name: "L" + id, Under: space.St(f("V", tInt), f("W", tInt))}
		sc.Decls = append(sc.Decls, ls)
		s0, t0 = space.N(ls), space.N(ls)
	} else {
		ls := &space.Decl{Pkg: "in", Name: "L" + id, Under: space.St(f("V", tInt), f("W", tInt))}
		lt := &space.Decl{Pkg: "out", Name: "L" + id, Under: space.St(f("V", tInt), f("W", tInt))}
		sc.Decls = append(sc.Decls, ls, lt)
		s0, t0 = space.N(ls), space.N(lt)
	}
	s, t := s0, t0
	for i := len(nest) - 1; i >= 0; i-- {
		var ds []*space.Decl
		s, t, ds = nest[i].wrap(id, i, s, t)
		sc.Decls = append(sc.Decls, ds...)
	}
	sG, tG := s0.Go("conv"), t0.Go("conv")

	// top method signature and contexts
	params := "source " + s.Go("conv")
	var ctxTypes []*space.Ty
	var mlines []string
	hasErr := form.fallible && wrapMode != "noerr" // "noerr": the tested method has no error result, so it must be refused
	switch form.name {
	case "declared-method-ctx-available":
		params = "ctxa string, source " + s.Go("conv")
		sc.SrcIdx, sc.CtxIdx, ctxTypes = 1, []int{0}, []*space.Ty{tStr}
		mlines = append(mlines, "context ctxa")
	case "underlying-ctx-available":
		params = "ctxa string, source " + s.Go("conv")
		sc.SrcIdx, sc.CtxIdx, ctxTypes = 1, []int{0}, []*space.Ty{tStr}
		mlines = append(mlines, "context ctxa")
	case "extend-ctx-int", "extend-error-ctx", "extend-regex-ctx":
		params = "ctxa int, source " + s.Go("conv")
		sc.SrcIdx, sc.CtxIdx, ctxTypes = 1, []int{0}, []*space.Ty{tInt}
		mlines = append(mlines, "context ctxa")
	case "extend-ctx-needs-missing":
		// the function needs a string context, the method only offers an int one
		params = "source " + s.Go("conv") + ", ctxa int"
		sc.SrcIdx, sc.CtxIdx, ctxTypes = 0, []int{1}, []*space.Ty{tInt}
		mlines = append(mlines, "context ctxa")
	case "extend-ctx-of-two":
		params = "ctxa int, source " + s.Go("conv") + ", ctxb string"
		sc.SrcIdx, sc.CtxIdx, ctxTypes = 1, []int{0, 2}, []*space.Ty{tInt, tStr}
		mlines = append(mlines, "context ctxa", "context ctxb")
	case "extend-ctx-regex":
		params = "source " + s.Go("conv") + ", ctxb string"
		sc.SrcIdx, sc.CtxIdx, ctxTypes = 0, []int{1}, []*space.Ty{tStr}
		sc.ConvLines = append(sc.ConvLines, "arg:context:regex ^ctx")
	}
	result := t.Go("conv")
	if hasErr {
		result = "(" + result + ", error)"
	}
	switch wrapMode {
	case "wrapErrors":
		sc.ConvLines = append(sc.ConvLines, "wrapErrors")
		conv.Set.WrapErrors = true
	case "wrapErrorsUsing":
		sc.ConvLines = append(sc.ConvLines, "wrapErrorsUsing vx/werr")
		conv.Set.WrapErrorsUsing = "vx/werr"
		sc.Files = map[string]string{"werr/werr.go": werrSource}
	}
	sc.ConvLines = append(sc.ConvLines, "enum:unknown @ignore")
	conv.Set.EnumUnknown = "@ignore"
	top := &model.Method{Name: "Convert", Src: s, Dst: t, Set: conv.Set, Fields: map[string]*model.FieldCfg{}, CtxTypes: ctxTypes, HasErr: hasErr}
	conv.Methods = append(conv.Methods, top)
	sc.Methods = append(sc.Methods, &ScMethod{Name: "Convert", Params: params, Result: result, Lines: mlines, M: top})

	fn := "Ext" + id
	reg := func(c *model.Custom, expr string) {
		conv.Extends = append(conv.Extends, c)
		sc.Funcs[c.Name] = expr
	}
	body := func(mark int, extra string) string {
		return fmt.Sprintf("return %s{V: s.V + %d%s, W: s.W}", tG, mark, extra)
	}
	switch form.name {
	case "extend-local":
		sc.ConvLines = append(sc.ConvLines, "extend "+fn)
		sc.FuncsSrc = fmt.Sprintf("func %s(s %s) %s { %s }\n", fn, sG, tG, body(1000, ""))
		reg(&model.Custom{Name: fn, Src: s0, Dst: t0}, "conv."+fn)
	case "extend-sametype", "extend-sametype-skipcopy":
		sc.ConvLines = append(sc.ConvLines, "extend "+fn)
		if form.name == "extend-sametype-skipcopy" {
			sc.ConvLines = append(sc.ConvLines, "skipCopySameType")
			conv.Set.SkipCopySameType = true
			top.Set.SkipCopySameType = true
		}
		sc.FuncsSrc = fmt.Sprintf("func %s(s %s) %s { %s }\n", fn, sG, tG, body(1500, ""))
		reg(&model.Custom{Name: fn, Src: s0, Dst: t0}, "conv."+fn)
	case "extend-pkg":
		sc.ConvLines = append(sc.ConvLines, "extend vx/ext:"+fn)
		sc.Files = mergeFiles(sc.Files, map[string]string{"ext/ext.go": fmt.Sprintf("package ext\n\nimport \"vx/in\"\nimport \"vx/out\"\n\nfunc %s(s %s) %s { return %s{V: s.V + 2000, W: s.W} }\n", fn, s0.Go("ext"), t0.Go("ext"), t0.Go("ext"))})
		sc.Imports = append(sc.Imports, "ext")
		sc.FuncsSrc = "var _ = ext." + fn + "\n"
		reg(&model.Custom{Name: fn, Pkg: "ext", Src: s0, Dst: t0}, "ext."+fn)
	case "extend-regex":
		sc.ConvLines = append(sc.ConvLines, "extend Rx"+id+".*")
		sc.FuncsSrc = fmt.Sprintf("func Rx%sA(s %s) %s { %s }\nfunc Rx%sB() {}\n", id, sG, tG, body(3000, ""), id)
		reg(&model.Custom{Name: "Rx" + id + "A", Src: s0, Dst: t0}, "conv.Rx"+id+"A")
	case "extend-regex-ctx":
		// regex-selected function whose context parameter is declared by a comment on the function itself
		sc.ConvLines = append(sc.ConvLines, "extend Rc"+id+".*")
		sc.FuncsSrc = fmt.Sprintf("// goverter:context ctxv\nfunc Rc%sA(s %s, ctxv int) %s { %s }\nfunc Rc%sB(a, b int) {}\n", id, sG, tG, body(3500, " + 7*ctxv"), id)
		reg(&model.Custom{Name: "Rc" + id + "A", Src: s0, Dst: t0, Ctx: []*space.Ty{tInt}, ArgsFmt: []string{"src", "ctx:0"}}, "conv.Rc"+id+"A")
	case "extend-conv-arg":
		sc.ConvLines = append(sc.ConvLines, "extend "+fn)
		sc.FuncsSrc = fmt.Sprintf("func %s(c %s, s %s) %s { _ = c; %s }\n", fn, sc.ID, sG, tG, body(4000, ""))
		sc.NeedConv = true
		reg(&model.Custom{Name: fn, Src: s0, Dst: t0, Conv: true, ArgsFmt: []string{"conv", "src"}}, "conv."+fn)
	case "extend-error":
		sc.ConvLines = append(sc.ConvLines, "extend "+fn)
		sc.FuncsSrc = fmt.Sprintf("func %s(s %s) (%s, error) {\n\tif s.V < 0 { return %s{}, &Boom{V: s.V} }\n\treturn %s{V: s.V + 5000, W: s.W}, nil\n}\n", fn, sG, tG, tG, tG)
		reg(&model.Custom{Name: fn, Src: s0, Dst: t0, Err: true}, "conv."+fn)
	case "declared-method":
		lm := &model.Method{Name: "Leaf", Src: s0, Dst: t0, Set: conv.Set, Fields: map[string]*model.FieldCfg{}}
		lines := []string{"map W V", "ignore W"}
		applyMethodLines(lm, lines)
		conv.Methods = append(conv.Methods, lm)
		sc.Methods = append(sc.Methods, &ScMethod{Name: "Leaf", Params: "source " + sG, Result: tG, Lines: lines, M: lm})
	case "declared-method-ctx-missing", "declared-method-ctx-available":
		// a declared method that needs a context; the caller offers it or not
		lm := &model.Method{Name: "Leaf", Src: s0, Dst: t0, Set: conv.Set, Fields: map[string]*model.FieldCfg{}, CtxTypes: []*space.Ty{tStr}}
		lines := []string{"context ctxq", "map W V", "ignore W"}
		applyMethodLines(lm, lines)
		conv.Methods = append(conv.Methods, lm)
		sc.Methods = append(sc.Methods, &ScMethod{Name: "Leaf", Params: "source " + sG + ", ctxq string", Result: tG, Lines: lines, M: lm})
	case "underlying-ctx-missing", "underlying-ctx-available":
		// the extend on the underlying types needs a string context; the method offers it or not
		sc.ConvLines = append(sc.ConvLines, "useUnderlyingTypeMethods", "extend "+fn)
		conv.Set.UseUnderlying = true
		top.Set.UseUnderlying = true
		sc.FuncsSrc = fmt.Sprintf("// goverter:context ctxv\nfunc %s(s int, ctxv string) int { return s + 500 + len(ctxv) }\n", fn)
		reg(&model.Custom{Name: fn, Src: tInt, Dst: tInt, Ctx: []*space.Ty{tStr}, ArgsFmt: []string{"src", "ctx:0"}}, "conv."+fn)
	case "underlying", "underlying-src", "underlying-dst", "underlying-enum":
		sc.ConvLines = append(sc.ConvLines, "useUnderlyingTypeMethods", "extend "+fn)
		conv.Set.UseUnderlying = true
		top.Set.UseUnderlying = true
		sc.FuncsSrc = fmt.Sprintf("func %s(s int) string { return fmt.Sprint(\"u\", s) }\n", fn)
		reg(&model.Custom{Name: fn, Src: tInt, Dst: tStr}, "conv."+fn)
	case "extend-ctx-int":
		sc.ConvLines = append(sc.ConvLines, "extend "+fn)
		sc.FuncsSrc = fmt.Sprintf("// goverter:context ctxv\nfunc %s(s %s, ctxv int) %s { %s }\n", fn, sG, tG, body(6000, " + 7*ctxv"))
		reg(&model.Custom{Name: fn, Src: s0, Dst: t0, Ctx: []*space.Ty{tInt}, ArgsFmt: []string{"src", "ctx:0"}}, "conv."+fn)
	case "extend-error-ctx":
		sc.ConvLines = append(sc.ConvLines, "extend "+fn)
		sc.FuncsSrc = fmt.Sprintf("// goverter:context ctxv\nfunc %s(ctxv int, s %s) (%s, error) {\n\tif s.V < 0 { return %s{}, &Boom{V: s.V} }\n\treturn %s{V: s.V + 6500 + 7*ctxv, W: s.W}, nil\n}\n", fn, sG, tG, tG, tG)
		reg(&model.Custom{Name: fn, Src: s0, Dst: t0, Err: true, Ctx: []*space.Ty{tInt}, ArgsFmt: []string{"ctx:0", "src"}}, "conv."+fn)
	case "extend-ctx-needs-missing":
		sc.ConvLines = append(sc.ConvLines, "extend "+fn)
		sc.FuncsSrc = fmt.Sprintf("// goverter:context ctxv\nfunc %s(s %s, ctxv string) %s { %s }\n", fn, sG, tG, body(7000, " + len(ctxv)"))
		reg(&model.Custom{Name: fn, Src: s0, Dst: t0, Ctx: []*space.Ty{tStr}, ArgsFmt: []string{"src", "ctx:0"}}, "conv."+fn)
	case "extend-ctx-of-two":
		sc.ConvLines = append(sc.ConvLines, "extend "+fn)
		sc.FuncsSrc = fmt.Sprintf("// goverter:context ctxv\nfunc %s(ctxv string, s %s) %s { %s }\n", fn, sG, tG, body(8000, " + len(ctxv)"))
		reg(&model.Custom{Name: fn, Src: s0, Dst: t0, Ctx: []*space.Ty{tStr}, ArgsFmt: []string{"ctx:0", "src"}}, "conv."+fn)
	case "extend-ctx-regex":
		// the regex is written before the extend line, so the function's ctx-named parameter is a context
		sc.ConvLines = append(sc.ConvLines, "extend "+fn)
		sc.FuncsSrc = fmt.Sprintf("func %s(s %s, ctxq string) %s { %s }\n", fn, sG, tG, body(9000, " + len(ctxq)"))
		reg(&model.Custom{Name: fn, Src: s0, Dst: t0, Ctx: []*space.Ty{tStr}, ArgsFmt: []string{"src", "ctx:0"}}, "conv."+fn)
	}
	sc.Mode = "value,nomutate"
	switch wrapMode {
	case "wrapErrors":
		sc.Mode += ",wraperrors"
	case "wrapErrorsUsing":
		sc.Mode += ",wrapusing"
	}
	return sc
}

func mergeFiles(a, b map[string]string) map[string]string {
	if a == nil {
		a = map[string]string{}
	}
	for k, v := range b {
		a[k] = v
	}
	return a
}

// nestPaths enumerates all nesting paths of length ≤ depth (including the empty path).
func nestPaths(depth int) [][]nesting {
	ns := c06Nestings()
	out := [][]nesting{{}}
	level := [][]nesting{{}}
	for d := 0; d < depth; d++ {
		var next [][]nesting
		for _, p := range level {
			for _, n := range ns {
				// a map key must be comparable: only the leaf itself or comparable wrappers may stand below mapkey
				np := append(append([]nesting{}, p...), n)
				if !pathOK(np) {
					continue
				}
				next = append(next, np)
			}
		}
		out = append(out, next...)
		level = next
	}
	return out
}

// spinePaths: deeper paths made only of constructors that are converted inline (no generated sub-method in between),
// lengths 3..7, ending in an unnamed struct whose failing field is not its last field. Error locations are accumulated
// along such a spine inside one generated method.
func spinePaths() [][]nesting {
	byName := map[string]nesting{}
	for _, n := range c06Nestings() {
		byName[n.name] = n
	}
	sl, mv, us := byName["slice"], byName["mapval"], byName["ustruct"]
	var out [][]nesting
	for d := 3; d <= 7; d++ {
		var a, b, c []nesting
		for i := 0; i < d-1; i++ {
			a = append(a, sl)
			if i%2 == 0 {
				b = append(b, mv)
			} else {
				b = append(b, sl)
			}
			c = append(c, us)
		}
		out = append(out, append(a, us), append(b, us), append(c, us))
	}
	return out
}

func pathOK(p []nesting) bool {
	for i, n := range p {
		if n.name == "mapkey" {
			for _, below := range p[i+1:] {
				if below.name == "slice" || below.name == "mapval" || below.name == "mapkey" || below.name == "mapval-enumkey" || strings.HasPrefix(below.name, "recursive") {
					return false
				}
			}
		}
	}
	return true
}

// C06Scenarios: custom forms × nesting paths (no error wrapping); C07Scenarios: fallible forms × nesting × wrap modes.
func C06Scenarios(tier string) []*Scenario {
	depth := 2
	if tier == "thorough" {
		depth = 3
	}
	out := MapFuncScenarios()
	n := 70000
	// custom functions of a method classify their parameters with the context expression in effect for that method
	for _, sc := range ctxRegexFuncScenarios(&n, "C06") {
		if len(sc.Global) == 0 {
			out = append(out, sc)
		}
	}
	n = 0
	for _, form := range c06Forms {
		for _, path := range nestPaths(depth) {
			n++
			out = append(out, buildC06(fmt.Sprintf("%05d", n), form, path, "", "C06", "C06"))
		}
	}
	out = append(out, defaultWithExtendScenarios(60000, "C06")...)
	return out
}

func C07Scenarios(tier string) []*Scenario {
	depth := 2
	if tier == "thorough" {
		depth = 3
	}
	out := FallibleKindScenarios(tier)
	n := 50000
	for _, form := range c06Forms {
		if !form.fallible {
			continue
		}
		for _, wrap := range []string{"", "wrapErrors", "wrapErrorsUsing", "noerr"} {
			for _, path := range nestPaths(depth) {
				n++
				out = append(out, buildC06(fmt.Sprintf("%05d", n), form, path, wrap, "C07", "C07"))
			}
		}
		for _, wrap := range []string{"wrapErrors", "wrapErrorsUsing"} {
			for _, path := range spinePaths() {
				n++
				out = append(out, buildC06(fmt.Sprintf("%05d", n), form, path, wrap, "C07", "C07"))
			}
		}
	}
	return out
}

// ---- map|FUNC applied at exactly the configured field ----

// buildMapFunc: S{A int; B int; N *S; I Inner{X int}} → T{A int; B int; X int; I InnerT{X int}} with `map <src> X | <fn>`.
// The nested struct has a field X too: it must stay automatic.
func buildMapFunc(id string, shape string, srcPath string, fnKind string) *Scenario {
	sc := &Scenario{ID: "M" + id, PropGen: "C06", PropVal: "C06", Test: "Convert", Funcs: map[string]string{},
		Desc: map[string]any{"class": fmt.Sprintf("mapfunc shape=%s path=%s fn=%s", shape, srcPath, fnKind)}}
	conv := &model.Converter{OutPkg: "conv/generated", LitPkg: "conv"}
	sc.Conv = conv
	is := &space.Decl{Pkg: "in", Name: "I" + id, Under: space.St(f("X", tInt))}
	it := &space.Decl{Pkg: "out", Name: "I" + id, Under: space.St(f("X", tInt))}
	sd := &space.Decl{Pkg: "in", Name: "S" + id}
	sd.Under = space.St(f("A", tInt), f("B", tInt), f("N", space.P(space.N(sd))), f("I", space.N(is)))
	td := &space.Decl{Pkg: "out", Name: "T" + id, Under: space.St(f("A", tInt), f("B", tInt), f("X", tInt), f("I", space.N(it)))}
	sc.Decls = []*space.Decl{sd, td, is, it}
	sT, tT := space.N(sd), space.N(td)
	fn := "Mf" + id
	var fsrc *space.Ty
	body := ""
	switch fnKind {
	case "int":
		fsrc, body = tInt, "return s*10 + 7"
	case "ptr-struct":
		fsrc, body = space.P(sT), "if s == nil { return -1 }; return s.A*100 + 3"
	case "struct":
		fsrc, body = sT, "return s.A*1000 + s.B"
	case "no-source":
		fsrc, body = nil, "return 4242"
	}
	cust := &model.Custom{Name: fn, Dst: tInt, ArgsFmt: []string{}}
	params := ""
	if fsrc != nil {
		cust.Src = fsrc
		cust.ArgsFmt = []string{"src"}
		params = "s " + fsrc.Go("conv")
	}
	sc.FuncsSrc = fmt.Sprintf("func %s(%s) int { %s }\n", fn, params, body)
	sc.Funcs[fn] = "conv." + fn
	line := "map " + srcPath + " X | " + fn
	if srcPath == "" {
		line = "map X | " + fn
	}
	src, dst := sT, tT
	switch shape {
	case "ptr-ptr":
		src, dst = space.P(sT), space.P(tT)
	case "ptr-val":
		src = space.P(sT)
		sc.ConvLines = append(sc.ConvLines, "useZeroValueOnPointerInconsistency")
		conv.Set.UseZeroPtr = true
	case "val-ptr":
		dst = space.P(tT)
	}
	top := &model.Method{Name: "Convert", Src: src, Dst: dst, Set: conv.Set, Fields: map[string]*model.FieldCfg{"X": {Source: srcPath, Fn: cust}}, NFieldSettings: 1}
	conv.Methods = []*model.Method{top}
	sc.Methods = []*ScMethod{{Name: "Convert", Params: "source " + src.Go("conv"), Result: dst.Go("conv"), Lines: []string{line}, M: top}}
	sc.Mode = "value,nomutate"
	return sc
}

func MapFuncScenarios() []*Scenario {
	var out []*Scenario
	n := 70000
	for _, shape := range []string{"val-val", "ptr-ptr", "ptr-val", "val-ptr"} {
		for _, pf := range [][2]string{{"A", "int"}, {"B", "int"}, {"N", "ptr-struct"}, {".", "struct"}, {".", "ptr-struct"}, {"", "no-source"}, {"N.A", "int"}, {"N.N", "ptr-struct"}, {"I.X", "int"}, {"A", "struct"}} {
			n++
			out = append(out, buildMapFunc(fmt.Sprintf("%05d", n), shape, pf[0], pf[1]))
		}
	}
	return out
}

// ---- C07: other kinds of fallible sites (map|FUNC with error, struct-method source with error, default FUNC with
// error, enum @error) in a struct below each nesting, under the three wrapping modes ----

func buildFallibleKind(id string, kind string, nest []nesting, wrapMode string) *Scenario {
	sc := &Scenario{ID: "J" + id, PropGen: "C07", PropVal: "C07", Test: "Convert", Funcs: map[string]string{},
		Desc: map[string]any{"wrap": wrapMode}}
	conv := &model.Converter{OutPkg: "conv/generated", LitPkg: "conv"}
	sc.Conv = conv
	var nestNames []string
	for _, n := range nest {
		nestNames = append(nestNames, n.name)
	}
	sc.Desc["class"] = fmt.Sprintf("fallible=%s nest=%s wrap=%s", kind, strings.Join(nestNames, ">"), wrapMode)
	// leaf pair with a declared method Leaf carrying the fallible site
	ls := &space.Decl{Pkg: "in", Name: "L" + id, Under: space.St(f("V", tInt), f("W", tInt))}
	lt := &space.Decl{Pkg: "out", Name: "L" + id, Under: space.St(f("V", tInt), f("W", tInt))}
	sc.Decls = []*space.Decl{ls, lt}
	s0, t0 := space.N(ls), space.N(lt)
	switch wrapMode {
	case "wrapErrors":
		sc.ConvLines = append(sc.ConvLines, "wrapErrors")
		conv.Set.WrapErrors = true
	case "wrapErrorsUsing":
		sc.ConvLines = append(sc.ConvLines, "wrapErrorsUsing vx/werr")
		conv.Set.WrapErrorsUsing = "vx/werr"
		sc.Files = map[string]string{"werr/werr.go": werrSource}
	}
	lm := &model.Method{Name: "Leaf", Src: s0, Dst: t0, Set: conv.Set, Fields: map[string]*model.FieldCfg{}, HasErr: true, EnumMap: map[string]string{}}
	var llines []string
	fn := "Fk" + id
	switch kind {
	case "mapfunc":
		llines = []string{"map V V | " + fn}
		sc.FuncsSrc = fmt.Sprintf("func %s(s int) (int, error) {\n\tif s < 0 { return 0, &Boom{V: s} }\n\treturn s + 300, nil\n}\n", fn)
		cust := &model.Custom{Name: fn, Src: tInt, Dst: tInt, Err: true, ArgsFmt: []string{"src"}}
		lm.Fields["V"] = &model.FieldCfg{Source: "V", Fn: cust}
		lm.NFieldSettings = 1
		sc.Funcs[fn] = "conv." + fn
	case "structmethod":
		// the source has a method W2() (int, error) used for target field W
		ls.Methods = []space.Method{{Name: "Vm", Result: tInt, Err: true, Body: "if r.V < 0 { return 0, &Boom{V: r.V} }; return r.V + 400, nil"}}
		llines = []string{"map Vm V"}
		lm.Fields["V"] = &model.FieldCfg{Source: "Vm"}
		lm.NFieldSettings = 1
	case "default":
		llines = []string{"default " + fn}
		sc.FuncsSrc = fmt.Sprintf("func %s(s %s) (%s, error) {\n\tif s.W < 0 { return %s{}, &Boom{V: s.W} }\n\treturn %s{V: 1, W: 2}, nil\n}\n", fn, s0.Go("conv"), t0.Go("conv"), t0.Go("conv"), t0.Go("conv"))
		lm.Default = &model.Custom{Name: fn, Src: s0, Dst: t0, Err: true, ArgsFmt: []string{"src"}}
		sc.Funcs[fn] = "conv." + fn
	}
	if kind == "structmethod" {
		// Boom lives in package conv; the method is in package in: use a local error type there
		ls.Methods[0].Body = "if r.V < 0 { return 0, &InBoom{V: r.V} }; return r.V + 400, nil"
		sc.Files = mergeFiles(sc.Files, map[string]string{"in/boom.go": "package in\n\nimport \"fmt\"\n\ntype InBoom struct{ V int }\n\nfunc (b *InBoom) Error() string         { return fmt.Sprintf(\"inboom %d\", b.V) }\nfunc (b *InBoom) VerifSentinel() string { return \"inboom\" }\n"})
	}
	s, t := s0, t0
	for i := len(nest) - 1; i >= 0; i-- {
		var ds []*space.Decl
		s, t, ds = nest[i].wrap(id, i, s, t)
		sc.Decls = append(sc.Decls, ds...)
	}
	sc.ConvLines = append(sc.ConvLines, "enum:unknown @ignore")
	conv.Set.EnumUnknown = "@ignore"
	lm.Set = conv.Set
	// "noerr": the top method has no error result; "noerr-leaf": the declared leaf method has none (the top one has)
	topErr, leafErr := wrapMode != "noerr", wrapMode != "noerr-leaf"
	res := func(t *space.Ty, withErr bool) string {
		if withErr {
			return "(" + t.Go("conv") + ", error)"
		}
		return t.Go("conv")
	}
	if len(nest) == 0 {
		// the declared method itself is the test method
		lm.Name = "Convert"
		lm.HasErr = topErr
		conv.Methods = []*model.Method{lm}
		sc.Methods = []*ScMethod{{Name: "Convert", Params: "source " + s0.Go("conv"), Result: res(t0, topErr), Lines: llines, M: lm}}
	} else {
		lm.HasErr = leafErr
		top := &model.Method{Name: "Convert", Src: s, Dst: t, Set: conv.Set, Fields: map[string]*model.FieldCfg{}, HasErr: topErr}
		conv.Methods = []*model.Method{top, lm}
		sc.Methods = []*ScMethod{{Name: "Convert", Params: "source " + s.Go("conv"), Result: res(t, topErr), M: top},
			{Name: "Leaf", Params: "source " + s0.Go("conv"), Result: res(t0, leafErr), Lines: llines, M: lm}}
	}
	sc.Mode = "value,nomutate"
	switch wrapMode {
	case "wrapErrors":
		sc.Mode += ",wraperrors"
	case "wrapErrorsUsing":
		sc.Mode += ",wrapusing"
	}
	if kind == "default" {
		sc.Mode += ",nilkeeps"
	}
	return sc
}

func FallibleKindScenarios(tier string) []*Scenario {
	var out []*Scenario
	n := 60000
	depth := 1
	if tier == "thorough" {
		depth = 2
	}
	for _, kind := range []string{"mapfunc", "structmethod", "default"} {
		for _, wrap := range []string{"", "wrapErrors", "wrapErrorsUsing", "noerr", "noerr-leaf"} {
			for _, path := range nestPaths(depth) {
				if wrap == "noerr-leaf" && len(path) == 0 {
					continue
				}
				n++
				out = append(out, buildFallibleKind(fmt.Sprintf("%05d", n), kind, path, wrap))
			}
		}
	}
	return out
}
