package checks

import (
	"fmt"
	"strings"

	"verif/internal/model"
	"verif/internal/space"
)

// ---- C08 scenario family: enum pairs × member-set variants × enum settings × positions ----

type enumUnder struct {
	name string
	ty   *space.Ty
	// lits: three distinct literals (source side), three for the target side, plus two big neighbours
	src, tgt []string
}

var c08Unders = []enumUnder{
	{"int", space.B("int"), []string{"1", "2", "3"}, []string{"10", "20", "30"}},
	{"uint8", space.B("uint8"), []string{"1", "2", "3"}, []string{"3", "2", "1"}},
	{"int64-big", space.B("int64"), []string{"9007199254740993", "9007199254740992", "1"}, []string{"1", "2", "3"}},
	{"uint64-big", space.B("uint64"), []string{"18446744073709551615", "18446744073709551614", "1"}, []string{"1", "2", "3"}},
	{"string", space.B("string"), []string{`"a"`, `"b"`, `"zz"`}, []string{`"x"`, `"y"`, `"z"`}},
	{"float64", space.B("float64"), []string{"1", "1.5", "2"}, []string{"2", "1", "1.5"}},
	// float members that differ only beyond the tenth significant digit
	{"float64-close", space.B("float64"), []string{"3.14159265358979323846", "3.14159265359", "1"}, []string{"2", "1", "1.5"}},
	// negative values and the zero value among the source members; an empty-string source member
	{"int-negative", space.B("int"), []string{"-1", "0", "5"}, []string{"-5", "7", "1"}},
	{"string-empty-source", space.B("string"), []string{`""`, `"b"`, `"zz"`}, []string{`"x"`, `"y"`, `"z"`}},
	{"int8-bounds", space.B("int8"), []string{"-128", "127", "0"}, []string{"1", "2", "3"}},
	// target members whose value is the zero value (an ignored source member leaves the zero value too, yet the two are different mappings)
	{"int-zero-target", space.B("int"), []string{"1", "2", "3"}, []string{"0", "1", "2"}},
	{"string-empty-target", space.B("string"), []string{`"a"`, `"b"`, `"zz"`}, []string{`""`, `"y"`, `"z"`}},
}

// memberSet describes which members exist on both sides (names are suffixes appended to the scenario prefix).
type memberSet struct {
	name string
	src  [][2]string // name suffix, literal index ("0","1","2") or "=<idx>" alias of literal idx
	tgt  [][2]string
	// hints: lines that make the variant convertible
	fix []string
}

var c08Members = []memberSet{
	{"same", [][2]string{{"A", "0"}, {"B", "1"}, {"C", "2"}}, [][2]string{{"A", "0"}, {"B", "1"}, {"C", "2"}}, nil},
	{"renamed", [][2]string{{"A", "0"}, {"B", "1"}, {"Sx", "2"}}, [][2]string{{"A", "0"}, {"B", "1"}, {"Tx", "2"}}, nil},
	{"extra-source", [][2]string{{"A", "0"}, {"B", "1"}, {"C", "2"}}, [][2]string{{"A", "0"}, {"B", "1"}}, nil},
	{"extra-target", [][2]string{{"A", "0"}, {"B", "1"}}, [][2]string{{"A", "0"}, {"B", "1"}, {"C", "2"}}, nil},
	{"source-alias", [][2]string{{"A", "0"}, {"B", "1"}, {"A2", "0"}}, [][2]string{{"A", "0"}, {"B", "1"}}, nil},
	{"target-alias", [][2]string{{"A", "0"}, {"B", "1"}, {"B2", "1"}}, [][2]string{{"A", "0"}, {"B", "1"}, {"B2", "1"}}, nil},
	{"both-alias-same-name", [][2]string{{"A", "0"}, {"A2", "0"}, {"B", "1"}}, [][2]string{{"A", "0"}, {"A2", "0"}, {"B", "1"}}, nil},
	{"prefixed", [][2]string{{"ColA", "0"}, {"ColB", "1"}}, [][2]string{{"A", "0"}, {"B", "1"}}, nil},
	{"unexported-source-member", [][2]string{{"A", "0"}, {"B", "1"}, {"!c", "2"}}, [][2]string{{"A", "0"}, {"B", "1"}, {"!c", "2"}}, nil},
	{"unexported-target-member", [][2]string{{"A", "0"}, {"B", "1"}}, [][2]string{{"A", "0"}, {"B", "1"}, {"!c", "2"}}, nil},
}

// c08 method-level line menus; $P is replaced by the scenario's member prefix.
var c08MapMenu = []string{"", "enum:map $PSx $PTx", "enum:map $PSx @ignore", "enum:map $PSx @panic", "enum:map $PSx @error", "enum:map $PC $PA",
	"enum:map $PA2 $PA", "enum:map $PA2 $PB", "enum:map $PNope $PA", "enum:map $PA $PNope", "enum:map $PA @bad",
	"enum:map $PA2 @ignore", "enum:map $PA2 @panic", "enum:map $PA2 @error", "enum:map $PA @ignore",
	"enum:transform regex $PCol(\\w) $P$1", "enum:transform regex Zzz(\\w) Q$1", "enum:transform regex ( x", "enum:transform regex $P(\\w)x $P${1}x"}

var c08UnknownMenu = []string{"", "@error", "@panic", "@ignore", "$PA", "$PNope", "@bad"}

// sametype / sametype-field: the enum type converted to itself (members map to themselves, everything else follows enum:unknown)
var c08Positions = []string{"top", "field", "slice", "mapval", "mapkey", "sametype", "sametype-field"}

func buildC08(id string, un enumUnder, ms memberSet, mapLine, unknown, unknownLevel, enumSwitch, pos string, withErr bool) *Scenario {
	sc := &Scenario{ID: "E" + id, PropGen: "C08", PropVal: "C08", Test: "Convert", Funcs: map[string]string{},
		Desc: map[string]any{"class": fmt.Sprintf("under=%s members=%s pos=%s", un.name, ms.name, pos), "map": mapLine, "unknown": unknown + "@" + unknownLevel, "enum": enumSwitch, "err": withErr}}
	pfx := "E" + id
	mk := func(pkg string, lits []string, mem [][2]string) *space.Decl {
		d := &space.Decl{Pkg: pkg, Name: "E" + id, Under: un.ty}
		for _, m := range mem {
			var idx int
			fmt.Sscan(m[1], &idx)
			name := pfx + m[0]
			if strings.HasPrefix(m[0], "!") {
				// unexported member: lower-case first letter
				name = "e" + id + m[0][1:]
			}
			d.Consts = append(d.Consts, space.Const{Name: name, Lit: lits[idx]})
		}
		return d
	}
	se, te := mk("in", un.src, ms.src), mk("out", un.tgt, ms.tgt)
	sc.Decls = []*space.Decl{se, te}
	sE, tE := space.N(se), space.N(te)
	conv := &model.Converter{OutPkg: "conv/generated", LitPkg: "conv"}
	sc.Conv = conv
	sub := func(l string) string { return strings.ReplaceAll(l, "$P", pfx) }
	var enumLines []string
	if mapLine != "" {
		enumLines = append(enumLines, sub(mapLine))
	}
	// enum:unknown placement
	unk := sub(unknown)
	if unk != "" {
		switch unknownLevel {
		case "converter":
			sc.ConvLines = append(sc.ConvLines, "enum:unknown "+unk)
			conv.Set.EnumUnknown = unk
		case "method":
			enumLines = append(enumLines, "enum:unknown "+unk)
		}
	}
	switch enumSwitch {
	case "conv-no":
		sc.ConvLines = append(sc.ConvLines, "enum no")
		conv.Set.EnumOff = true
	case "method-no":
		enumLines = append(enumLines, "enum no")
	case "exclude-source":
		sc.ConvLines = append(sc.ConvLines, "enum:exclude vx/in:E"+id)
		conv.EnumExclude = map[string]bool{"in.E" + id: true}
	case "exclude-regex":
		sc.ConvLines = append(sc.ConvLines, "enum:exclude vx/(in|out):E"+id+"$")
		conv.EnumExclude = map[string]bool{"in.E" + id: true, "out.E" + id: true}
	}
	res := func(t *space.Ty) string {
		if withErr {
			return "(" + t.Go("conv") + ", error)"
		}
		return t.Go("conv")
	}
	add := func(name string, s, t *space.Ty, lines []string) {
		mm := &model.Method{Name: name, Src: s, Dst: t, Set: conv.Set, Fields: map[string]*model.FieldCfg{}, EnumMap: map[string]string{}, HasErr: withErr}
		applyEnumLines(mm, lines)
		conv.Methods = append(conv.Methods, mm)
		sc.Methods = append(sc.Methods, &ScMethod{Name: name, Params: "source " + s.Go("conv"), Result: res(t), Lines: lines, M: mm})
	}
	if strings.HasPrefix(pos, "sametype") {
		// only the source enum exists; its members are their own targets
		sc.Decls = []*space.Decl{se}
		tE = sE
		sc.Desc["class"] = fmt.Sprintf("under=%s members=%s pos=%s", un.name, ms.name, pos)
	}
	switch pos {
	case "sametype":
		add("Convert", sE, sE, enumLines)
	case "sametype-field":
		add("Convert", space.St(f("F", sE), f("Z", tInt)), space.St(f("F", sE), f("Z", tInt)), nil)
		add("Enum", sE, sE, enumLines)
	case "top":
		add("Convert", sE, tE, enumLines)
	case "field":
		add("Convert", space.St(f("F", sE), f("Z", tInt)), space.St(f("F", tE), f("Z", tInt)), nil)
		add("Enum", sE, tE, enumLines)
	case "slice":
		add("Convert", space.S(sE), space.S(tE), nil)
		add("Enum", sE, tE, enumLines)
	case "mapval":
		add("Convert", space.M(tStr, sE), space.M(tStr, tE), nil)
		add("Enum", sE, tE, enumLines)
	case "mapkey":
		add("Convert", space.M(sE, tStr), space.M(tE, tStr), nil)
		add("Enum", sE, tE, enumLines)
	}
	sc.Mode = "value,nomutate"
	return sc
}

// applyEnumLines: independent re-statement of the documented enum line syntax.
func applyEnumLines(m *model.Method, lines []string) {
	for _, l := range lines {
		parts := strings.SplitN(l, " ", 2)
		rest := ""
		if len(parts) == 2 {
			rest = parts[1]
		}
		switch parts[0] {
		case "enum:map":
			fs := strings.Fields(rest)
			if len(fs) == 2 {
				m.EnumMap[fs[0]] = fs[1]
			}
		case "enum:transform":
			fs := strings.SplitN(rest, " ", 2)
			if len(fs) == 2 && fs[0] == "regex" {
				cfg := strings.Split(fs[1], " ")
				if len(cfg) == 2 {
					m.EnumTransforms = append(m.EnumTransforms, [2]string{cfg[0], cfg[1]})
				} else {
					m.EnumTransforms = append(m.EnumTransforms, [2]string{"(", ""}) // invalid config ⇒ model error
				}
			}
		case "enum:unknown":
			m.Set.EnumUnknown = strings.TrimSpace(rest)
		case "enum":
			m.Set.EnumOff = strings.TrimSpace(rest) == "no"
		}
	}
}

// C08Scenarios enumerates the family. quick: one deviation from (int, same, no map, unknown @ignore at converter, top);
// plus all pairs of (member set, map line) and (unknown, level); thorough: full product over a reduced position set.
func C08Scenarios(tier string) []*Scenario {
	var out []*Scenario
	n := 0
	emit := func(un enumUnder, ms memberSet, mapLine, unknown, lvl, sw, pos string, withErr bool) {
		n++
		out = append(out, buildC08(fmt.Sprintf("%05d", n), un, ms, mapLine, unknown, lvl, sw, pos, withErr))
	}
	switches := []string{"", "conv-no", "method-no", "exclude-source", "exclude-regex"}
	if tier == "thorough" {
		for _, un := range c08Unders {
			for _, ms := range c08Members {
				for _, ml := range c08MapMenu {
					for _, uk := range c08UnknownMenu {
						for _, lvl := range []string{"converter", "method"} {
							if uk == "" && lvl == "method" {
								continue
							}
							for _, pos := range c08Positions {
								emit(un, ms, ml, uk, lvl, "", pos, true)
							}
							emit(un, ms, ml, uk, lvl, "", "top", false)
						}
					}
				}
			}
		}
		for _, un := range c08Unders {
			for _, sw := range switches[1:] {
				for _, pos := range c08Positions {
					emit(un, c08Members[0], "", "@ignore", "converter", sw, pos, true)
				}
			}
		}
		return out
	}
	// quick
	for _, un := range c08Unders {
		for _, ms := range c08Members {
			for _, ml := range c08MapMenu {
				emit(un, ms, ml, "@ignore", "converter", "", "top", true)
			}
			for _, uk := range c08UnknownMenu {
				for _, lvl := range []string{"converter", "method"} {
					if uk == "" && lvl == "method" {
						continue
					}
					emit(un, ms, "", uk, lvl, "", "top", true)
					emit(un, ms, "", uk, lvl, "", "top", false)
				}
			}
			for _, pos := range c08Positions[1:] {
				emit(un, ms, "", "@error", "converter", "", pos, true)
				emit(un, ms, "", "@panic", "method", "", pos, true)
			}
		}
		for _, sw := range switches[1:] {
			for _, pos := range c08Positions {
				emit(un, c08Members[0], "", "@ignore", "converter", sw, pos, true)
			}
		}
	}
	return out
}
