package checks

import (
	"bytes"
	"encoding/json"
	"fmt"
	"os"
	"os/exec"
	"path/filepath"
	"sort"
	"strings"
	"sync"

	"verif/internal/drive"
	"verif/internal/emit"
	"verif/internal/ev"
	"verif/internal/fshist"
)

// ---- C09: output and diagnostic are a function of input, settings and options only ----

type c09Input struct {
	name     string
	files    map[string]string
	patterns []string
}

const c09Types = "type In struct{ A int; B string }\ntype Out struct{ A int; B string }\n"

// c09Corpus: inputs with several candidates wherever goverter iterates a map.
func c09Corpus(thorough bool) []c09Input {
	pk := func(name, body string) string { return "package " + name + "\n\n" + body }
	in := []c09Input{
		{"two-unknown-ignore-fields", map[string]string{"a/a.go": pk("a", c09Types+"\n// goverter:converter\ntype C interface {\n\t// goverter:ignore Nope1 Nope2 Nope3\n\tConvert(source In) Out\n}\n")}, []string{"./a"}},
		{"two-unknown-enum-map-keys", map[string]string{"a/a.go": pk("a", "type E int\nconst (EA E = 1; EB E = 2)\ntype F int\nconst (FA F = 1; FB F = 2)\n\n// goverter:converter\n// goverter:enum:unknown @ignore\ntype C interface {\n\t// goverter:enum:map EA FA\n\t// goverter:enum:map EB FB\n\t// goverter:enum:map Nope1 FA\n\t// goverter:enum:map Nope2 FB\n\tConvert(source E) F\n}\n")}, []string{"./a"}},
		{"two-faulty-variables", map[string]string{"a/a.go": pk("a", c09Types+"\n// goverter:variables\nvar (\n\t// goverter:nonsense1\n\tConvA func(source In) Out\n\t// goverter:nonsense2\n\tConvB func(source In) Out\n\t// goverter:nonsense3\n\tConvC func(source In) Out\n)\n")}, []string{"./a"}},
		{"several-ok-variables", map[string]string{"a/a.go": pk("a", c09Types+"type Out2 struct{ A int }\n\n// goverter:variables\nvar (\n\tConvA func(source In) Out\n\tConvB func(source In) Out2\n\tConvC func(source []In) []Out\n\tConvD func(source map[string]In) map[string]Out2\n)\n")}, []string{"./a"}},
		{"several-converters-files-packages", map[string]string{
			"a/a.go":  pk("a", c09Types+"\n// goverter:converter\ntype A1 interface {\n\tConvert(source In) Out\n\tList(source []In) []Out\n}\n"),
			"a/a2.go": pk("a", "// goverter:converter\n// goverter:output:file ./generated/second.go\ntype A2 interface {\n\tConvert(source *In) *Out\n}\n\n// goverter:converter\n// goverter:output:file ./third/third.go\ntype A3 interface {\n\tConvert(source map[string]In) map[string]Out\n}\n"),
			"b/b.go":  pk("b", c09Types+"\n// goverter:converter\ntype B1 interface {\n\tConvert(source In) Out\n}\n"),
			"c/c.go":  pk("c", c09Types+"\n// goverter:converter\ntype C1 interface {\n\tConvert(source In) Out\n}\n"),
		}, []string{"./a", "./b", "./c"}},
		{"many-methods-and-submethods", map[string]string{"a/a.go": pk("a", "type N1 struct{ V int }\ntype N2 struct{ V int }\ntype N3 struct{ V int }\ntype M1 struct{ V int }\ntype M2 struct{ V int }\ntype M3 struct{ V int }\ntype In struct{ A N1; B N2; C N3; L []N1; P *N2 }\ntype Out struct{ A M1; B M2; C M3; L []M1; P *M2 }\n\n// goverter:converter\ntype C interface {\n\tZ(source In) Out\n\tY(source []In) []Out\n\tX(source N3) M3\n\tW(source map[string]In) map[string]Out\n}\n")}, []string{"./a"}},
		{"overlapping-extends-and-contexts", map[string]string{"a/a.go": pk("a", "type In struct{ A int; B int; C int }\ntype Out struct{ A string; B string; C string }\n\n// goverter:converter\n// goverter:extend ExtA ExtB ExtC ExtD\ntype C interface {\n\t// goverter:context ctxa\n\t// goverter:context ctxb\n\tConvert(source In, ctxa bool, ctxb float64) Out\n}\n\nfunc ExtA(s int) string { return \"\" }\n// goverter:context c\nfunc ExtB(s int, c bool) string { return \"\" }\n// goverter:context c\nfunc ExtC(s int, c float64) string { return \"\" }\n// goverter:context c\n// goverter:context d\nfunc ExtD(s int, c bool, d float64) string { return \"\" }\n")}, []string{"./a"}},
		{"missing-contexts-diagnostic", map[string]string{"a/a.go": pk("a", "type In struct{ A int }\ntype Out struct{ A string }\n\n// goverter:converter\n// goverter:extend Ext\ntype C interface {\n\t// goverter:context c1\n\t// goverter:context c2\n\t// goverter:context c3\n\tConvert(source In, c1 bool, c2 float64, c3 uint8) Out\n}\n\n// goverter:context a\n// goverter:context b\n// goverter:context c\nfunc Ext(s int, a string, b int64, c uint16) string { return \"\" }\n")}, []string{"./a"}},
		{"enum-members-and-transform", map[string]string{"a/a.go": pk("a", "type E int\nconst (ColA E = 1; ColB E = 2; ColC E = 3; ColD E = 4)\ntype F int\nconst (A F = 1; B F = 2; C F = 3; D F = 4)\n\n// goverter:converter\n// goverter:enum:unknown @panic\ntype Conv interface {\n\t// goverter:enum:transform regex Col(\\w) $1\n\tConvert(source E) F\n\tBack(source []E) []F\n}\n")}, []string{"./a"}},
		{"two-methods-with-field-settings-on-non-struct", map[string]string{"a/a.go": pk("a", c09Types+"\n// goverter:converter\ntype C interface {\n\t// goverter:ignore A\n\tOne(source []In) []Out\n\t// goverter:ignore B\n\tTwo(source map[string]In) map[string]Out\n\t// goverter:ignore A\n\tThree(source [2]In) []Out\n}\n")}, []string{"./a"}},
		{"two-faulty-converters-two-packages", map[string]string{
			"a/a.go": pk("a", c09Types+"\n// goverter:converter\ntype A1 interface {\n\tConvert(source In) int\n}\n"),
			"b/b.go": pk("b", c09Types+"\n// goverter:converter\ntype B1 interface {\n\tConvert(source In) string\n}\n"),
		}, []string{"./a", "./b"}},
		{"same-file-different-packages", map[string]string{"a/a.go": pk("a", c09Types+"\n// goverter:converter\n// goverter:output:package vx/x:one\ntype A1 interface {\n\tConvert(source In) Out\n}\n\n// goverter:converter\n// goverter:output:package vx/x:two\ntype A2 interface {\n\tConvert(source In) Out\n}\n\n// goverter:converter\n// goverter:output:package vx/x:three\ntype A3 interface {\n\tConvert(source In) Out\n}\n")}, []string{"./a"}},
		{"same-converter-name-one-file", map[string]string{
			"a/a.go": pk("a", c09Types+"\n// goverter:converter\n// goverter:output:format function\n// goverter:output:file ../gen/g.go\n// goverter:output:package vx/gen\ntype C interface {\n\tConvA(source In) Out\n}\n"),
			"b/b.go": pk("b", c09Types+"\n// goverter:converter\n// goverter:output:format function\n// goverter:output:file ../gen/g.go\n// goverter:output:package vx/gen\ntype C interface {\n\tConvB(source In) Out\n}\n"),
			"c/c.go": pk("c", c09Types+"\n// goverter:converter\n// goverter:output:format function\n// goverter:output:file ../gen/g.go\n// goverter:output:package vx/gen\ntype C interface {\n\tConvC(source In) Out\n}\n"),
		}, []string{"./a", "./b", "./c"}},
		{"regex-extend-shared-by-two-packages", map[string]string{
			"conv/conv.go": pk("conv", "type Name string\ntype Label string\ntype In struct{ N Name }\ntype Out struct{ N Label }\n\nfunc normalizeName(s Name) Label { return Label(\"n:\" + string(s)) }\n\n// goverter:variables\n// goverter:extend vx/conv:.*Name\nvar (\n\tConvA func(source In) Out\n)\n"),
			"api/api.go":   pk("api", "import \"vx/conv\"\n\n// goverter:variables\n// goverter:extend vx/conv:.*Name\n// goverter:extend Fallback\nvar (\n\tConvB func(source conv.In) conv.Out\n)\n\nfunc Fallback(s int) string { return \"\" }\n"),
			"fn/fn.go":     pk("fn", "import \"vx/conv\"\n\n// goverter:converter\n// goverter:output:format function\n// goverter:extend vx/conv:.*Name\n// goverter:extend Fallback\ntype F interface {\n\tConvF(source conv.In) conv.Out\n}\n\nfunc Fallback(s int) string { return \"\" }\n"),
		}, []string{"./conv", "./api", "./fn"}},
		{"cwd-relative-and-file-relative-outputs", map[string]string{
			"internal/conv/conv.go": pk("conv", c09Types+"\n// goverter:converter\n// goverter:output:file @cwd/gen/conv_gen.go\n// goverter:output:package vx/gen\ntype A1 interface {\n\tConvert(source In) Out\n}\n\n// goverter:converter\n// goverter:output:file ../x/x_gen.go\n// goverter:output:package vx/internal/x\ntype A2 interface {\n\tConvert(source []In) []Out\n}\n\n// goverter:variables\n// goverter:output:file @cwd/gen/vars_gen.go\n// goverter:output:package vx/gen\nvar (\n\tConvV func(source In) Out\n)\n"),
		}, []string{"./internal/conv"}},
		{"helper-gains-several-contexts", map[string]string{"a/a.go": pk("a", "type Nested struct{ A int }\ntype NestedOut struct{ A string }\ntype In struct{ N Nested; L []Nested; M map[string]Nested }\ntype Out struct{ N NestedOut; L []NestedOut; M map[string]NestedOut }\n\n// goverter:converter\n// goverter:extend Ext\ntype C interface {\n\t// goverter:context c1\n\t// goverter:context c2\n\t// goverter:context c3\n\t// goverter:context c4\n\t// goverter:context c5\n\tConvert(source In, c1 bool, c2 float64, c3 uint8, c4 string, c5 int64) Out\n}\n\n// goverter:context a\n// goverter:context b\n// goverter:context c\n// goverter:context d\n// goverter:context e\nfunc Ext(s int, a int64, b string, c uint8, d float64, e bool) string { return \"\" }\n")}, []string{"./a"}},
		{"ambiguous-fields-and-missing", map[string]string{"a/a.go": pk("a", "type In struct{ NAME string; NaMe string; nAME string; X int }\ntype Out struct{ Name string; Y int; Z int }\n\n// goverter:converter\n// goverter:matchIgnoreCase\ntype C interface {\n\tConvert(source In) Out\n}\n")}, []string{"./a"}},
	}
	if thorough {
		in = append(in,
			c09Input{"wrap-errors-and-custom", map[string]string{"a/a.go": pk("a", "type In struct{ A int; L []int; M map[string]int }\ntype Out struct{ A string; L []string; M map[string]string }\n\n// goverter:converter\n// goverter:wrapErrors\n// goverter:extend Ext\ntype C interface {\n\tConvert(source In) (Out, error)\n}\n\nfunc Ext(s int) (string, error) { return \"\", nil }\n")}, []string{"./a"}},
			c09Input{"update-and-default", map[string]string{"a/a.go": pk("a", c09Types+"\n// goverter:converter\n// goverter:update:ignoreZeroValueField\ntype C interface {\n\t// goverter:update target\n\tUpdate(source In, target *Out)\n\t// goverter:default NewOut\n\tConvert(source *In) *Out\n}\n\nfunc NewOut() *Out { return &Out{} }\n")}, []string{"./a"}},
		)
	}
	return in
}

func (in c09Input) tree() fshist.Tree {
	t := fshist.Tree{"go.mod": {Data: []byte("module vx\n\ngo 1.22\n"), Mode: 0o644}}
	for p, c := range in.files {
		d := filepath.ToSlash(filepath.Dir(p))
		for d != "." && d != "" {
			t[d] = fshist.Entry{Dir: true, Mode: 0o755}
			d = filepath.ToSlash(filepath.Dir(d))
		}
		t[p] = fshist.Entry{Data: []byte(c), Mode: 0o644}
	}
	return t
}

type orderResult struct {
	Input       string         `json:"input"`
	Executions  int            `json:"executions"`
	Points      int            `json:"points"`
	MaxPoints   int            `json:"max_points"`
	Sites       map[string]int `json:"sites"`
	Baseline    string         `json:"baseline"`
	Error       string         `json:"error"`
	Capped      bool           `json:"capped"`
	Divergences []struct {
		Choices []int    `json:"choices"`
		Site    string   `json:"site"`
		Sites   []string `json:"sites"`
		Got     string   `json:"got"`
		Want    string   `json:"want"`
	} `json:"divergences"`
}

// runMapOrder builds goverter with the map-range overlay and explores iteration orders for every corpus input.
func runMapOrder(run *ev.Run, base string) {
	root := os.Getenv("VERIF_ROOT")
	if root == "" {
		root = "/verif"
	}
	ovDir := filepath.Join(base, "overlay")
	goenv := append(os.Environ(), "GOFLAGS=-mod=mod", "GOPROXY=off", "GOSUMDB=off", "GOTOOLCHAIN=local")
	if pc := os.Getenv("VERIF_PERSISTENT_GOCACHE"); pc != "" {
		// building the rewriter and the overlaid goverter depends only on /repo and /verif sources: keep it cached
		goenv = append(goenv, "GOCACHE="+pc)
	}
	sh := func(dir string, args ...string) (string, error) {
		cmd := exec.Command(args[0], args[1:]...)
		cmd.Dir = dir
		cmd.Env = goenv
		out, err := cmd.CombinedOutput()
		return string(out), err
	}
	if out, err := sh(root, "go", "build", "-o", filepath.Join(base, "maporder"), "./cmd/maporder"); err != nil {
		fmt.Fprintln(os.Stderr, "HARNESS-ERROR: build maporder:", out)
		run.Harness = true
		return
	}
	repo := os.Getenv("VERIF_REPO")
	if repo == "" {
		repo = "/repo"
	}
	out, err := sh(root, filepath.Join(base, "maporder"), repo, ovDir, filepath.Join(root, "internal/order/vorder.go.txt"))
	if err != nil {
		fmt.Fprintln(os.Stderr, "HARNESS-ERROR: maporder rewrite failed:", out)
		run.Harness = true
		return
	}
	var sites []string
	if b, err := os.ReadFile(filepath.Join(ovDir, "sites.json")); err == nil {
		_ = json.Unmarshal(b, &sites)
	}
	run.Cov["sites_instrumented"] = sites
	if len(sites) == 0 {
		fmt.Println("VACUOUS: no map range found in goverter")
	}
	orderx := filepath.Join(base, "orderx")
	if out, err := sh(root, "go", "build", "-tags", "verif maporder", "-overlay", filepath.Join(ovDir, "overlay.json"), "-o", orderx, "./cmd/orderx"); err != nil {
		fmt.Fprintln(os.Stderr, "HARNESS-ERROR: goverter does not build with the map-order overlay:\n"+out)
		run.Harness = true
		return
	}
	bound := 1
	if run.Thorough() {
		bound = 2
	}
	corpus := c09Corpus(run.Thorough())
	var mu sync.Mutex
	var wg sync.WaitGroup
	sem := make(chan bool, nWorkers)
	totalExec, totalPoints := 0, 0
	reached := map[string]int{}
	for i, in := range corpus {
		wg.Add(1)
		sem <- true
		go func(i int, in c09Input) {
			defer wg.Done()
			defer func() { <-sem }()
			dir := filepath.Join(base, fmt.Sprintf("mo%d", i))
			if err := in.tree().Write(dir); err != nil {
				return
			}
			cmd := exec.Command(orderx, append([]string{fmt.Sprint(bound), dir}, in.patterns...)...)
			cmd.Env = goenv
			var so, se bytes.Buffer
			cmd.Stdout, cmd.Stderr = &so, &se
			err := cmd.Run()
			var r orderResult
			if err != nil || json.Unmarshal(bytes.TrimSpace(so.Bytes()), &r) != nil {
				mu.Lock()
				fmt.Fprintf(os.Stderr, "HARNESS-ERROR: orderx on %s: %v\n%s\n", in.name, err, firstN(se.String(), 1500))
				run.Harness = true
				mu.Unlock()
				return
			}
			mu.Lock()
			defer mu.Unlock()
			if r.Error != "" {
				fmt.Fprintf(os.Stderr, "HARNESS-ERROR: orderx on %s: %s\n", in.name, r.Error)
				run.Harness = true
			}
			totalExec += r.Executions
			totalPoints += r.MaxPoints
			for s, n := range r.Sites {
				reached[s] += n
			}
			run.OutcomeN("maporder:"+in.name+"/executions", r.Executions)
			if r.Capped {
				run.Cov["maporder_capped_"+in.name] = true
			}
			run.Sample(map[string]any{"engine": "maporder", "input": in.name, "executions": r.Executions, "choice_points": r.MaxPoints, "baseline": firstN(r.Baseline, 200)})
			for _, d := range r.Divergences {
				run.Report(ev.Violation{Site: "maporder:" + d.Site, Symptom: "output-depends-on-map-iteration-order",
					Detail: fmt.Sprintf("input %s: choosing another iteration order at %v (choices %v) changes the result\n--- default order:\n%s\n--- this order:\n%s", in.name, d.Sites, d.Choices, d.Want, d.Got),
					Case:   map[string]any{"kind": "maporder", "input": in.name, "choices": d.Choices, "files": in.files, "patterns": in.patterns}})
			}
		}(i, in)
	}
	wg.Wait()
	run.Cov["maporder_executions"] = totalExec
	run.Cov["maporder_choice_points"] = totalPoints
	run.Cov["maporder_deviation_bound"] = bound
	run.Cov["maporder_sites_reached"] = reached
	run.Cov["maporder_alternatives"] = "all n! orders for n<=3 keys; sorted, reversed and the n-1 rotations for n>3"
	add(run, "states", totalExec)
	add(run, "transitions", totalExec)
	add(run, "evaluations", totalExec)
}

func add(run *ev.Run, key string, n int) {
	cur, _ := run.Cov[key].(int)
	run.Cov[key] = cur + n
}

// envProduct: the same input generated under every permutation/duplication of its package patterns, -cwd vs chdir,
// relative vs absolute -cwd, import-path vs relative patterns, a relocated copy of the module and fresh-process repetitions.
func envProduct(run *ev.Run, base string) {
	bin := drive.GoverterBin()
	corpus := c09Corpus(run.Thorough())
	var mu sync.Mutex
	var wg sync.WaitGroup
	sem := make(chan bool, nWorkers)
	nruns := 0
	for i, in := range corpus {
		wg.Add(1)
		sem <- true
		go func(i int, in c09Input) {
			defer wg.Done()
			defer func() { <-sem }()
			type variant struct {
				name string
				root string // scratch root (relocation)
				dir  string
				args []string
			}
			rootA := filepath.Join(base, fmt.Sprintf("env%d", i), "loc-a", "mod")
			rootB := filepath.Join(base, fmt.Sprintf("env%d", i), "another", "deeper", "location", "m")
			var vs []variant
			pats := in.patterns
			vs = append(vs, variant{"baseline", rootA, "", append([]string{"gen"}, pats...)})
			for r := 0; r < 4; r++ {
				vs = append(vs, variant{fmt.Sprintf("repeat-%d", r), rootA, "", append([]string{"gen"}, pats...)})
			}
			for pi, perm := range permutations(pats) {
				if pi == 0 {
					continue
				}
				vs = append(vs, variant{"pattern-order " + strings.Join(perm, " "), rootA, "", append([]string{"gen"}, perm...)})
			}
			if len(pats) > 0 {
				dup := append(append([]string{}, pats...), pats[0])
				vs = append(vs, variant{"pattern-duplicated", rootA, "", append([]string{"gen"}, dup...)})
				dup2 := append([]string{pats[len(pats)-1]}, pats...)
				vs = append(vs, variant{"pattern-duplicated-front", rootA, "", append([]string{"gen"}, dup2...)})
				var imp []string
				for _, p := range pats {
					imp = append(imp, "vx/"+strings.TrimPrefix(p, "./"))
				}
				vs = append(vs, variant{"import-path-patterns", rootA, "", append([]string{"gen"}, imp...)})
				// other spellings of the same directories: trailing slash, unclean path, absolute directory
				var slash, unclean, abs []string
				for _, p := range pats {
					if !strings.HasPrefix(p, "./") || strings.Contains(p, "...") {
						slash, unclean, abs = nil, nil, nil
						break
					}
					slash = append(slash, p+"/")
					unclean = append(unclean, "./"+strings.TrimPrefix(p, "./")+"/../"+filepath.Base(p))
					abs = append(abs, filepath.Join(rootA, strings.TrimPrefix(p, "./")))
				}
				if slash != nil {
					vs = append(vs, variant{"spelling-trailing-slash", rootA, "", append([]string{"gen"}, slash...)})
					vs = append(vs, variant{"spelling-unclean", rootA, "", append([]string{"gen"}, unclean...)})
					vs = append(vs, variant{"spelling-absolute", rootA, "", append([]string{"gen"}, abs...)})
					vs = append(vs, variant{"spelling-absolute-other-cwd", rootA, "..", append([]string{"gen", "-cwd", rootA}, abs...)})
				}
				if len(pats) == len(in.files) || true {
					vs = append(vs, variant{"wildcard-overlap", rootA, "", append(append([]string{"gen"}, pats...), pats...)})
				}
				// -cwd given relative and absolute, from another process directory
				var up []string
				for _, p := range pats {
					up = append(up, p)
				}
				vs = append(vs, variant{"cwd-flag-relative", rootA, "..", append([]string{"gen", "-cwd", "mod"}, up...)})
				vs = append(vs, variant{"cwd-flag-absolute", rootA, "..", append([]string{"gen", "-cwd", rootA}, up...)})
			}
			vs = append(vs, variant{"relocated-module", rootB, "", append([]string{"gen"}, pats...)})
			type obs struct {
				exit  int
				files string
				err   string
			}
			var baseObs *obs
			for _, v := range vs {
				_ = os.RemoveAll(v.root)
				t := in.tree()
				if err := t.Write(v.root); err != nil {
					continue
				}
				r := fshist.Exec(bin, v.root, v.dir, nil, v.args...)
				after, err := fshist.Read(v.root)
				if err != nil {
					continue
				}
				created, changed, _ := fshist.Diff(t, after)
				var b strings.Builder
				for _, p := range append(created, changed...) {
					if !after[p].Dir {
						fmt.Fprintf(&b, "%s %x\n", p, after[p].Data)
					}
				}
				o := &obs{exit: r.Exit, files: b.String(), err: strings.ReplaceAll(strings.ReplaceAll(r.Stderr, v.root, "@root"), filepath.Dir(v.root), "@parent")}
				mu.Lock()
				nruns++
				run.Outcome(fmt.Sprintf("env:exit:%d", r.Exit))
				if baseObs == nil {
					baseObs = o
				} else {
					site := "env:" + strings.Fields(v.name)[0]
					switch {
					case o.exit != baseObs.exit:
						run.Report(ev.Violation{Site: site + "|exit", Symptom: "exit-status-depends-on-environment", Detail: fmt.Sprintf("input %s variant %q: exit %d vs baseline %d\n%s", in.name, v.name, o.exit, baseObs.exit, firstN(o.err, 500)),
							Case: map[string]any{"kind": "env", "input": in.name, "variant": v.name, "args": v.args, "files": in.files}})
					case o.files != baseObs.files:
						run.Report(ev.Violation{Site: site + "|bytes", Symptom: "output-depends-on-environment", Detail: fmt.Sprintf("input %s variant %q (goverter %v): emitted files differ from the baseline run", in.name, v.name, v.args),
							Case: map[string]any{"kind": "env", "input": in.name, "variant": v.name, "args": v.args, "files": in.files}})
					case o.err != baseObs.err:
						run.Report(ev.Violation{Site: site + "|diagnostic", Symptom: "diagnostic-depends-on-environment", Detail: fmt.Sprintf("input %s variant %q (goverter %v):\n--- baseline:\n%s\n--- variant:\n%s", in.name, v.name, v.args, firstN(baseObs.err, 700), firstN(o.err, 700)),
							Case: map[string]any{"kind": "env", "input": in.name, "variant": v.name, "args": v.args, "files": in.files}})
					}
				}
				mu.Unlock()
			}
			os.RemoveAll(filepath.Join(base, fmt.Sprintf("env%d", i)))
		}(i, in)
	}
	wg.Wait()
	run.Cov["environment_runs"] = nruns
	add(run, "states", nruns)
	add(run, "transitions", nruns)
	add(run, "evaluations", nruns)
	add(run, "traces_validated_against_impl", nruns)
}

func permutations(in []string) [][]string {
	if len(in) <= 1 {
		return [][]string{append([]string{}, in...)}
	}
	var out [][]string
	for i := range in {
		rest := append(append([]string{}, in[:i]...), in[i+1:]...)
		for _, p := range permutations(rest) {
			out = append(out, append([]string{in[i]}, p...))
		}
	}
	return out
}

func RunC09(run *ev.Run) {
	base, err := os.MkdirTemp(emit.ScratchRoot(), "verif-c09-")
	if err != nil {
		run.Harness = true
		return
	}
	defer os.RemoveAll(base)
	// (3) histories: regeneration over existing, stale or broken output equals clean generation
	RunHistories(run)
	histRule, _ := run.Cov["rule"].(string)
	// (1) map iteration orders
	runMapOrder(run, base)
	// (2) environment product
	envProduct(run, base)
	var names []string
	for _, in := range c09Corpus(run.Thorough()) {
		names = append(names, in.name)
	}
	sort.Strings(names)
	run.Cov["corpus"] = names
	run.Cov["distinct_nontrivial"] = run.Cov["states"]
	run.Cov["exhaustive"] = !run.Harness
	run.Cov["rule"] = "(1) goverter is rebuilt with an automatically derived overlay in which every range over a map takes its order from the explorer; for each corpus input all choice sequences with <=d deviations from sorted order are executed in-process (entry point of the product) and must give byte-identical files / diagnostic; a recorded sequence is replayed twice, out-of-range choices are hard errors; (2) each input is run by the real CLI under every permutation and duplication of its package patterns, import-path vs relative patterns, -cwd relative/absolute vs chdir, a relocated copy of the module and 4 fresh-process repetitions: exit status, emitted bytes and (root-normalised) diagnostics must equal the baseline; (3) " + histRule
}
