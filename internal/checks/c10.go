package checks

import (
	"fmt"
	"strings"

	"verif/internal/model"
	"verif/internal/space"
)

// ---- C10: update methods ----

type fieldKind struct {
	name     string
	src, tgt func(u *space.Universe) *space.Ty
	needSkip bool // only convertible with skipCopySameType (identical types)
}

func c10FieldKinds() []fieldKind {
	same := func(t *space.Ty) func(*space.Universe) *space.Ty { return func(*space.Universe) *space.Ty { return t } }
	return []fieldKind{
		{"int", same(tInt), same(tInt), false},
		{"string", same(tStr), same(tStr), false},
		{"bool", same(space.B("bool")), same(space.B("bool")), false},
		{"named-basic", func(u *space.Universe) *space.Ty { return space.N(u.Get("in", "MyInt")) }, func(u *space.Universe) *space.Ty { return space.N(u.Get("out", "MyInt")) }, false},
		{"ustruct", same(space.St(f("X", tInt))), same(space.St(f("X", tInt))), false},
		{"nstruct", func(u *space.Universe) *space.Ty { return space.N(u.Get("in", "P")) }, func(u *space.Universe) *space.Ty { return space.N(u.Get("out", "P")) }, false},
		{"ptr", same(space.P(tInt)), same(space.P(tInt)), false},
		{"slice", same(space.S(tInt)), same(space.S(tInt)), false},
		{"map", same(space.M(tStr, tInt)), same(space.M(tStr, tInt)), false},
		{"ptr-to-val", same(space.P(tInt)), same(tInt), false},
		{"named-map", func(u *space.Universe) *space.Ty { return space.N(u.Get("in", "NM")) }, func(u *space.Universe) *space.Ty { return space.N(u.Get("out", "NM")) }, false},
		{"named-slice", func(u *space.Universe) *space.Ty { return space.N(u.Get("in", "NS")) }, func(u *space.Universe) *space.Ty { return space.N(u.Get("out", "NS")) }, false},
		{"ptr-named-struct", func(u *space.Universe) *space.Ty { return space.P(space.N(u.Get("in", "P"))) }, func(u *space.Universe) *space.Ty { return space.P(space.N(u.Get("out", "P"))) }, false},
		{"any", same(space.Any()), same(space.Any()), true},
		{"func", same(space.Fn("()")), same(space.Fn("()")), true},
		{"chan", same(space.Ch("", tInt)), same(space.Ch("", tInt)), true},
		{"array", same(space.A(2, tInt)), same(space.A(2, tInt)), true},
		{"ustruct-with-any", same(space.St(f("E", space.Any()), f("X", tInt))), same(space.St(f("E", space.Any()), f("X", tInt))), true},
		{"ustruct-noncomparable", same(space.St(f("L", space.S(tInt)))), same(space.St(f("L", space.S(tInt)))), false},
	}
}

var zeroCats = []string{"basic", "struct", "nillable"}

// zeroLines returns the setting lines selecting the category subset mask (bit0 basic, bit1 struct, bit2 nillable).
func zeroLines(mask int) []string {
	if mask == 7 {
		return []string{"update:ignoreZeroValueField"}
	}
	var out []string
	for i, c := range zeroCats {
		if mask&(1<<i) != 0 {
			out = append(out, "update:ignoreZeroValueField:"+c)
		}
	}
	return out
}

func applyZero(s *model.Settings, mask int) {
	s.ZeroBasic = mask&1 != 0
	s.ZeroStruct = mask&2 != 0
	s.ZeroNillable = mask&4 != 0
}

type updSig struct {
	name    string
	ptrSrc  bool
	tgtFirst bool
	err     bool
	ctx     bool
}

func buildC10(id string, fk fieldKind, mask int, level string, skip bool, sig updSig, overrideNo bool) *Scenario {
	u := space.StdUniverse()
	sc := &Scenario{ID: "U" + id, PropGen: "C10", PropVal: "C10", Test: "Convert", Funcs: map[string]string{},
		Desc: map[string]any{"class": fmt.Sprintf("field=%s skip=%v sig=%s", fk.name, skip, sig.name), "zero_mask": mask, "level": level, "override_no": overrideNo}}
	sd := &space.Decl{Pkg: "in", Name: "S" + id, Under: space.St(f("F", fk.src(u)), f("G", tInt))}
	td := &space.Decl{Pkg: "out", Name: "T" + id, Under: space.St(f("F", fk.tgt(u)), f("G", tInt), f("Stamp", tInt), f("Keep", tStr), f("Last", tInt))}
	sc.Decls = []*space.Decl{sd, td}
	conv := &model.Converter{OutPkg: "conv/generated", LitPkg: "conv"}
	sc.Conv = conv
	var eff model.Settings
	stampFn := "Stamp" + id
	sc.FuncsSrc = fmt.Sprintf("func %s() int { return 4711 }\nfunc Last%s(s int) int { return s + 5 }\n", stampFn, id)
	sc.Funcs[stampFn] = "conv." + stampFn
	sc.Funcs["Last"+id] = "conv.Last" + id
	mlines := []string{"update target", "ignore Keep", "map Stamp | " + stampFn, "map G Last | Last" + id}
	lines := zeroLines(mask)
	switch level {
	case "method":
		mlines = append(mlines, lines...)
	case "converter":
		sc.ConvLines = append(sc.ConvLines, lines...)
		applyZero(&conv.Set, mask)
	case "cli":
		sc.Global = append(sc.Global, lines...)
		applyZero(&conv.Set, mask)
	}
	applyZero(&eff, mask)
	if overrideNo && mask&1 != 0 && level != "method" {
		// the method switches the basic category off again
		mlines = append(mlines, "update:ignoreZeroValueField:basic no")
		eff.ZeroBasic = false
	}
	if fk.name == "ptr-to-val" {
		sc.ConvLines = append(sc.ConvLines, "useZeroValueOnPointerInconsistency")
		conv.Set.UseZeroPtr = true
		eff.UseZeroPtr = true
	}
	if skip {
		sc.ConvLines = append(sc.ConvLines, "skipCopySameType")
		conv.Set.SkipCopySameType = true
		eff.SkipCopySameType = true
	}
	sT, tT := space.N(sd), space.P(space.N(td))
	srcT := sT
	if sig.ptrSrc {
		srcT = space.P(sT)
	}
	var params []string
	src, tgt := "source "+srcT.Go("conv"), "target "+tT.Go("conv")
	if sig.tgtFirst {
		params = []string{tgt, src}
		sc.TgtIdx, sc.SrcIdx = 0, 1
	} else {
		params = []string{src, tgt}
		sc.SrcIdx, sc.TgtIdx = 0, 1
	}
	var ctxTypes []*space.Ty
	if sig.ctx {
		params = append([]string{"ctxa string"}, params...)
		sc.SrcIdx++
		sc.TgtIdx++
		sc.CtxIdx = []int{0}
		ctxTypes = []*space.Ty{tStr}
		mlines = append(mlines, "context ctxa")
	}
	result := ""
	if sig.err {
		result = "error"
	}
	top := &model.Method{Name: "Convert", Src: srcT, Dst: tT, Set: eff, Fields: map[string]*model.FieldCfg{"Keep": {Ignore: true},
		"Stamp": {Fn: &model.Custom{Name: stampFn, Dst: tInt, ArgsFmt: []string{}}},
		"Last":  {Source: "G", Fn: &model.Custom{Name: "Last" + id, Src: tInt, Dst: tInt, ArgsFmt: []string{"src"}}}},
		NFieldSettings: 3, Update: true, HasErr: sig.err, CtxTypes: ctxTypes}
	// zero-value settings written on the method count as field settings too, which only matters for overlap checks
	conv.Methods = []*model.Method{top}
	sc.Methods = []*ScMethod{{Name: "Convert", Params: strings.Join(params, ", "), Result: result, Lines: mlines, M: top}}
	sc.Mode = "update"
	return sc
}

func C10Scenarios(tier string) []*Scenario {
	var out []*Scenario
	n := 0
	base := updSig{name: "src,tgt"}
	var sigs []updSig
	for _, p := range []bool{false, true} {
		for _, tf := range []bool{false, true} {
			for _, e := range []bool{false, true} {
				for _, c := range []bool{false, true} {
					sigs = append(sigs, updSig{name: fmt.Sprintf("ptrsrc=%v tgtfirst=%v err=%v ctx=%v", p, tf, e, c), ptrSrc: p, tgtFirst: tf, err: e, ctx: c})
				}
			}
		}
	}
	levels := []string{"method", "converter", "cli"}
	for _, fk := range c10FieldKinds() {
		for mask := 0; mask < 8; mask++ {
			for li, level := range levels {
				if tier != "thorough" && li > 0 && mask != 7 && mask != 1 && mask != 4 {
					continue
				}
				for _, skip := range []bool{false, true} {
					if fk.needSkip && !skip {
						continue
					}
					n++
					out = append(out, buildC10(fmt.Sprintf("%05d", n), fk, mask, level, skip, base, false))
					if level != "method" && mask&1 != 0 {
						n++
						out = append(out, buildC10(fmt.Sprintf("%05d", n), fk, mask, level, skip, base, true))
					}
				}
			}
		}
	}
	for _, fk := range c10FieldKinds() {
		if fk.name != "int" && fk.name != "nstruct" && fk.name != "slice" {
			continue
		}
		for _, sig := range sigs[1:] {
			for _, mask := range []int{0, 7} {
				n++
				out = append(out, buildC10(fmt.Sprintf("%05d", n), fk, mask, "method", false, sig, false))
			}
		}
	}
	// source and target of ONE struct type, no field settings on the method: still a field-wise update under the
	// zero-value settings (converter / command-line level), with and without skipCopySameType
	for _, fk := range c10FieldKinds() {
		if fk.name != "int" && fk.name != "nstruct" && fk.name != "slice" && fk.name != "string" && fk.name != "ptr" && fk.name != "map" {
			continue
		}
		for _, mask := range []int{0, 1, 2, 4, 7} {
			for _, level := range []string{"converter", "cli"} {
				for _, skip := range []bool{false, true} {
					for _, ptrSrc := range []bool{false, true} {
						n++
						out = append(out, buildC10Same(fmt.Sprintf("%05d", n), fk, mask, level, skip, ptrSrc))
					}
				}
			}
		}
	}
	return out
}

func buildC10Same(id string, fk fieldKind, mask int, level string, skip, ptrSrc bool) *Scenario {
	u := space.StdUniverse()
	sc := &Scenario{ID: "US" + id, PropGen: "C10", PropVal: "C10", Test: "Convert", Funcs: map[string]string{},
		Desc: map[string]any{"class": fmt.Sprintf("same-type field=%s skip=%v ptrsrc=%v", fk.name, skip, ptrSrc), "zero_mask": mask, "level": level}}
	sd := &space.Decl{Pkg: "in", Name: "SS" + id, Under: space.St(f("F", fk.src(u)), f("G", tInt), f("H", tStr))}
	sc.Decls = []*space.Decl{sd}
	conv := &model.Converter{OutPkg: "conv/generated", LitPkg: "conv"}
	sc.Conv = conv
	lines := zeroLines(mask)
	if level == "converter" {
		sc.ConvLines = append(sc.ConvLines, lines...)
	} else {
		sc.Global = append(sc.Global, lines...)
	}
	applyZero(&conv.Set, mask)
	if skip {
		sc.ConvLines = append(sc.ConvLines, "skipCopySameType")
		conv.Set.SkipCopySameType = true
	}
	eff := conv.Set
	sT := space.N(sd)
	srcT := sT
	if ptrSrc {
		srcT = space.P(sT)
	}
	top := &model.Method{Name: "Convert", Src: srcT, Dst: space.P(sT), Set: eff, Fields: map[string]*model.FieldCfg{}, Update: true}
	conv.Methods = []*model.Method{top}
	sc.Methods = []*ScMethod{{Name: "Convert", Params: "source " + srcT.Go("conv") + ", target " + space.P(sT).Go("conv"), Result: "", Lines: []string{"update target"}, M: top}}
	sc.SrcIdx, sc.TgtIdx = 0, 1
	sc.Mode = "update"
	return sc
}
