package checks

import (
	"fmt"

	"verif/internal/model"
	"verif/internal/space"
)

// ---- C11: default constructors (pointer mismatches themselves are covered by the type-pair corpus) ----

type defFunc struct {
	name    string
	takeSrc bool
	ctx     bool
	err     bool
	ptrRes  bool
	bad     string // "", "wrong-result", "src-mismatch"
}

var c11Funcs = []defFunc{
	{name: "plain"}, {name: "ptr-result", ptrRes: true},
	{name: "with-source", takeSrc: true}, {name: "with-source-ptr-result", takeSrc: true, ptrRes: true},
	{name: "with-ctx", ctx: true}, {name: "with-error", err: true}, {name: "with-error-ptr", err: true, ptrRes: true},
	{name: "with-source-ctx-error", takeSrc: true, ctx: true, err: true, ptrRes: true},
	{name: "wrong-result", bad: "wrong-result"}, {name: "source-mismatch", takeSrc: true, bad: "src-mismatch"},
}

func buildC11(id string, srcPtr, tgtPtr bool, df defFunc, du string, zero bool, methodErr bool) *Scenario {
	return buildC11x(id, srcPtr, tgtPtr, df, du, zero, methodErr, false)
}

// buildC11x: nestedFallible adds a nested named struct whose conversion needs an error-returning extend function, so
// that the generated sub-method gains an error result after the method with the default was first built (rebuild).
func buildC11x(id string, srcPtr, tgtPtr bool, df defFunc, du string, zero bool, methodErr bool, nestedFallible bool) *Scenario {
	sc := &Scenario{ID: "D" + id, PropGen: "C11", PropVal: "C11", Test: "Convert", Funcs: map[string]string{},
		Desc: map[string]any{"class": fmt.Sprintf("srcptr=%v tgtptr=%v func=%s", srcPtr, tgtPtr, df.name), "default_update": du, "zero": zero, "method_err": methodErr}}
	sd := &space.Decl{Pkg: "in", Name: "S" + id, Under: space.St(f("A", tInt), f("B", tStr), f("P", space.P(tInt)), f("M", space.M(tStr, space.P(tInt))), f("Q", space.P(space.P(tInt))))}
	td := &space.Decl{Pkg: "out", Name: "T" + id, Under: space.St(f("A", tInt), f("B", tStr), f("P", space.P(tInt)), f("M", space.M(tStr, space.P(tInt))), f("Q", space.P(space.P(tInt))), f("Keep", tStr))}
	sc.Decls = []*space.Decl{sd, td}
	conv := &model.Converter{OutPkg: "conv/generated", LitPkg: "conv"}
	sc.Conv = conv
	if nestedFallible {
		ns := &space.Decl{Pkg: "in", Name: "N" + id, Under: space.St(f("V", tInt))}
		nt := &space.Decl{Pkg: "out", Name: "N" + id, Under: space.St(f("V", tStr))}
		sd.Under = space.St(append(sd.Under.Fields, f("Nest", space.N(ns)))...)
		tf := td.Under.Fields
		td.Under = space.St(append(append([]space.Field{}, tf[:len(tf)-1]...), f("Nest", space.N(nt)), tf[len(tf)-1])...)
		sc.Decls = append(sc.Decls, ns, nt)
		fn := "Fal" + id
		sc.ConvLines = append(sc.ConvLines, "extend "+fn)
		sc.FuncsSrc += fmt.Sprintf("func %s(s int) (string, error) {\n\tif s < 0 { return \"\", &Boom{V: s} }\n\treturn fmt.Sprint(\"n\", s), nil\n}\n", fn)
		conv.Extends = append(conv.Extends, &model.Custom{Name: fn, Src: tInt, Dst: tStr, Err: true})
		sc.Funcs[fn] = "conv." + fn
		sc.Desc["class"] = sc.Desc["class"].(string) + " nested-fallible"
	}
	sT, tT := space.N(sd), space.N(td)
	srcT, dstT := sT, tT
	if srcPtr {
		srcT = space.P(sT)
	}
	if tgtPtr {
		dstT = space.P(tT)
	}
	var eff model.Settings
	fn := "New" + id
	mlines := []string{"ignore Keep", "default " + fn}
	if srcPtr && !tgtPtr {
		sc.ConvLines = append(sc.ConvLines, "useZeroValueOnPointerInconsistency")
		conv.Set.UseZeroPtr, eff.UseZeroPtr = true, true
	}
	switch du {
	case "method":
		mlines = append(mlines, "default:update")
		eff.DefaultUpdate = true
	case "converter":
		sc.ConvLines = append(sc.ConvLines, "default:update")
		conv.Set.DefaultUpdate, eff.DefaultUpdate = true, true
	case "converter-yes-method-no":
		sc.ConvLines = append(sc.ConvLines, "default:update yes")
		conv.Set.DefaultUpdate = true
		mlines = append(mlines, "default:update no")
	}
	if zero {
		mlines = append(mlines, "update:ignoreZeroValueField")
		eff.ZeroBasic, eff.ZeroStruct, eff.ZeroNillable = true, true, true
	}
	// the constructor
	resT := tT
	if df.ptrRes {
		resT = space.P(tT)
	}
	var params []string
	cust := &model.Custom{Name: fn, Dst: resT, Err: df.err}
	if df.takeSrc {
		st := srcT
		if df.bad == "src-mismatch" {
			st = tInt
		}
		params = append(params, "s "+st.Go("conv"))
		cust.Src = st
		cust.ArgsFmt = append(cust.ArgsFmt, "src")
	}
	var ctxTypes []*space.Ty
	mparams := "source " + srcT.Go("conv")
	if df.ctx {
		params = append(params, "ctxv string")
		cust.Ctx = []*space.Ty{tStr}
		cust.ArgsFmt = append(cust.ArgsFmt, "ctx:0")
		mparams = "ctxa string, " + mparams
		sc.SrcIdx, sc.CtxIdx = 1, []int{0}
		ctxTypes = []*space.Ty{tStr}
		mlines = append(mlines, "context ctxa")
	}
	if cust.ArgsFmt == nil {
		cust.ArgsFmt = []string{}
	}
	lit := fmt.Sprintf("%s{A: 77, B: \"dflt\", P: &seven%s, Keep: \"kept\"}", tT.Go("conv"), id)
	if nestedFallible {
		lit = fmt.Sprintf("%s{A: 77, B: \"dflt\", P: &seven%s, Keep: \"kept\", Nest: %s{V: \"dn\"}}", tT.Go("conv"), id, space.N(sc.Decls[3]).Go("conv"))
	}
	val := lit
	if df.ptrRes {
		val = "&" + lit
	}
	res := resT.Go("conv")
	ret := "return " + val
	if df.bad == "wrong-result" {
		res, ret = "int", "return 5"
		cust.Dst = tInt
	}
	if df.err {
		res = "(" + res + ", error)"
		ret += ", nil"
	}
	doc := ""
	if df.ctx {
		doc = "// goverter:context ctxv\n"
		ret = "_ = ctxv; " + ret
	}
	if df.takeSrc {
		ret = "_ = s; " + ret
	}
	sc.FuncsSrc += fmt.Sprintf("var seven%s = 7\n\n%sfunc %s(%s) %s { %s }\n", id, doc, fn, joinComma(params), res, ret)
	sc.Funcs[fn] = "conv." + fn
	result := dstT.Go("conv")
	if methodErr {
		result = "(" + result + ", error)"
	}
	top := &model.Method{Name: "Convert", Src: srcT, Dst: dstT, Set: eff, Fields: map[string]*model.FieldCfg{"Keep": {Ignore: true}},
		NFieldSettings: 1, HasErr: methodErr, CtxTypes: ctxTypes, Default: cust}
	conv.Methods = []*model.Method{top}
	sc.Methods = []*ScMethod{{Name: "Convert", Params: mparams, Result: result, Lines: mlines, M: top}}
	sc.Mode = "value,nilkeeps"
	return sc
}

func joinComma(l []string) string {
	out := ""
	for i, x := range l {
		if i > 0 {
			out += ", "
		}
		out += x
	}
	return out
}

func C11Scenarios(tier string) []*Scenario {
	var out []*Scenario
	n := 0
	for _, sp := range []bool{false, true} {
		for _, tp := range []bool{false, true} {
			for _, df := range c11Funcs {
				for _, du := range []string{"", "method", "converter", "converter-yes-method-no"} {
					for _, zero := range []bool{false, true} {
						for _, me := range []bool{false, true} {
							if !df.err && me && tier != "thorough" && !(df.name == "plain" || df.name == "ptr-result") {
								continue
							}
							n++
							out = append(out, buildC11(fmt.Sprintf("%05d", n), sp, tp, df, du, zero, me))
							if me && df.bad == "" && !zero {
								n++
								out = append(out, buildC11x(fmt.Sprintf("%05d", n), sp, tp, df, du, zero, me, true))
							}
						}
					}
				}
			}
		}
	}
	return out
}

// defaultWithExtendScenarios: a method with goverter:default FUNC whose struct pair S -> T also has an extend function:
// the extend function is used wherever S -> T occurs, also in the update position behind the constructor (S -> *T, and
// *S -> *T / *S -> T with default:update), where its result replaces the constructor's value.
func defaultWithExtendScenarios(start int, prop string) []*Scenario {
	var out []*Scenario
	n := start
	for _, sp := range []bool{false, true} {
		for _, tp := range []bool{false, true} {
			for _, du := range []string{"", "method", "converter"} {
				for _, df := range []defFunc{c11Funcs[0], c11Funcs[1], c11Funcs[2]} {
					n++
					id := fmt.Sprintf("%05d", n)
					sc := buildC11(id, sp, tp, df, du, false, false)
					sc.PropGen, sc.PropVal = prop, prop
					sc.Desc["class"] = "default+extend-for-the-struct-pair " + sc.Desc["class"].(string)
					sd, td := sc.Decls[0], sc.Decls[1]
					sT, tT := space.N(sd), space.N(td)
					fn := "Ext" + id
					sc.ConvLines = append(sc.ConvLines, "extend "+fn)
					sc.FuncsSrc += fmt.Sprintf("func %s(s %s) %s { return %s{A: s.A + 1000, B: \"ext\" + s.B, Keep: \"extkeep\"} }\n", fn, sT.Go("conv"), tT.Go("conv"), tT.Go("conv"))
					sc.Conv.Extends = append(sc.Conv.Extends, &model.Custom{Name: fn, Src: sT, Dst: tT, ArgsFmt: []string{"src"}})
					sc.Funcs[fn] = "conv." + fn
					sc.Mode = "value"
					out = append(out, sc)
				}
			}
		}
	}
	return out
}
