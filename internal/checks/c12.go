package checks

import (
	"fmt"
	"sort"
	"strings"

	"verif/internal/drive"
	"verif/internal/emit"
	"verif/internal/ev"
	"verif/internal/model"
	"verif/internal/pool"
	"verif/internal/space"
)

// ---- C12: settings resolve method > converter > CLI; validated where written ----

// boolForms: how a boolean setting can be written at one level.
var boolForms = []string{"absent", "bare", "yes", "no"}

func boolLine(key, form string) []string {
	switch form {
	case "bare":
		return []string{key}
	case "yes":
		return []string{key + " yes"}
	case "no":
		return []string{key + " no"}
	case "yes-then-no": // two lines at one level: the later one is in effect
		return []string{key + " yes", key + " no"}
	case "no-then-yes":
		return []string{key + " no", key}
	}
	return nil
}

// resolve returns the value in effect: first defined of the given forms (highest priority first), else def.
func resolveBool(def bool, forms ...string) bool {
	for _, f := range forms {
		switch f {
		case "bare", "yes", "no-then-yes":
			return true
		case "no", "yes-then-no":
			return false
		}
	}
	return def
}

func opposite(form string) string {
	switch form {
	case "bare", "yes", "no-then-yes":
		return "no"
	}
	return "yes"
}

// probe builds the declarations and the tested method for one inheritable boolean setting.
type probe struct {
	key   string
	def   bool
	apply func(s *model.Settings, v bool)
	// build fills the scenario: declarations, method(s), custom functions. sibling=true adds a sibling method
	// with the given sibling settings.
	build func(sc *Scenario, id string, suffix string, mlines []string, eff model.Settings) *ScMethod
	mode  string
}

func structProbe(mkS, mkT func() []space.Field, extraConv []string) func(sc *Scenario, id, suffix string, mlines []string, eff model.Settings) *ScMethod {
	return func(sc *Scenario, id, suffix string, mlines []string, eff model.Settings) *ScMethod {
		sd := &space.Decl{Pkg: "in", Name: "S" + id + suffix, Under: space.St(mkS()...)}
		td := &space.Decl{Pkg: "out", Name: "T" + id + suffix, Under: space.St(mkT()...)}
		sc.Decls = append(sc.Decls, sd, td)
		mm := &model.Method{Name: "Convert" + suffix, Src: space.N(sd), Dst: space.N(td), Set: eff, Fields: map[string]*model.FieldCfg{}}
		sc.Conv.Methods = append(sc.Conv.Methods, mm)
		m := &ScMethod{Name: "Convert" + suffix, Params: "source " + space.N(sd).Go("conv"), Result: space.N(td).Go("conv"), Lines: mlines, M: mm}
		sc.Methods = append(sc.Methods, m)
		return m
	}
}

func c12Probes() []probe {
	u := space.StdUniverse()
	fs := func(x ...space.Field) func() []space.Field { return func() []space.Field { return x } }
	return []probe{
		{key: "ignoreMissing", apply: func(s *model.Settings, v bool) { s.IgnoreMissing = v },
			build: structProbe(fs(f("A", tInt)), fs(f("A", tInt), f("D", tInt)), nil)},
		{key: "ignoreUnexported", apply: func(s *model.Settings, v bool) { s.IgnoreUnexported = v },
			build: structProbe(fs(f("A", tInt), f("x", tInt)), fs(f("A", tInt), f("x", tInt)), nil)},
		{key: "matchIgnoreCase", apply: func(s *model.Settings, v bool) { s.MatchIgnoreCase = v },
			build: structProbe(fs(f("A", tInt), f("NAME", tStr)), fs(f("A", tInt), f("Name", tStr)), nil)},
		{key: "skipCopySameType", apply: func(s *model.Settings, v bool) { s.SkipCopySameType = v },
			build: structProbe(fs(f("A", tInt), f("F", space.Any())), fs(f("A", tInt), f("F", space.Any())), nil)},
		{key: "useZeroValueOnPointerInconsistency", apply: func(s *model.Settings, v bool) { s.UseZeroPtr = v },
			build: structProbe(fs(f("A", space.P(tInt))), fs(f("A", tInt)), nil)},
		{key: "enum", def: true, apply: func(s *model.Settings, v bool) { s.EnumOff = !v },
			build: func(sc *Scenario, id, suffix string, mlines []string, eff model.Settings) *ScMethod {
				// the method itself is the enum pair (inline position); without enum:unknown it only generates when enum is off
				se := &space.Decl{Pkg: "in", Name: "E" + id + suffix, Under: tInt, Consts: []space.Const{{Name: "E" + id + suffix + "A", Lit: "1"}}}
				te := &space.Decl{Pkg: "out", Name: "E" + id + suffix, Under: tInt, Consts: []space.Const{{Name: "E" + id + suffix + "A", Lit: "1"}}}
				sc.Decls = append(sc.Decls, se, te)
				mm := &model.Method{Name: "Convert" + suffix, Src: space.N(se), Dst: space.N(te), Set: eff, Fields: map[string]*model.FieldCfg{}, EnumMap: map[string]string{}}
				sc.Conv.Methods = append(sc.Conv.Methods, mm)
				m := &ScMethod{Name: "Convert" + suffix, Params: "source " + space.N(se).Go("conv"), Result: space.N(te).Go("conv"), Lines: mlines, M: mm}
				sc.Methods = append(sc.Methods, m)
				return m
			}},
		{key: "useUnderlyingTypeMethods", apply: func(s *model.Settings, v bool) { s.UseUnderlying = v },
			build: func(sc *Scenario, id, suffix string, mlines []string, eff model.Settings) *ScMethod {
				if suffix == "" {
					fn := "Und" + id
					sc.ConvLines = append(sc.ConvLines, "extend "+fn)
					sc.FuncsSrc += fmt.Sprintf("func %s(s int) string { return fmt.Sprint(\"u\", s) }\n", fn)
					sc.Conv.Extends = append(sc.Conv.Extends, &model.Custom{Name: fn, Src: tInt, Dst: tStr})
					sc.Funcs[fn] = "conv." + fn
				}
				su := &space.Decl{Pkg: "in", Name: "U" + id + suffix, Under: tInt}
				tu := &space.Decl{Pkg: "out", Name: "U" + id + suffix, Under: tStr}
				sc.Decls = append(sc.Decls, su, tu)
				mm := &model.Method{Name: "Convert" + suffix, Src: space.N(su), Dst: space.N(tu), Set: eff, Fields: map[string]*model.FieldCfg{}}
				sc.Conv.Methods = append(sc.Conv.Methods, mm)
				m := &ScMethod{Name: "Convert" + suffix, Params: "source " + space.N(su).Go("conv"), Result: space.N(tu).Go("conv"), Lines: mlines, M: mm}
				sc.Methods = append(sc.Methods, m)
				return m
			}},
		{key: "wrapErrors", apply: func(s *model.Settings, v bool) { s.WrapErrors = v }, mode: "wrap",
			build: func(sc *Scenario, id, suffix string, mlines []string, eff model.Settings) *ScMethod {
				// fallible extend int->string used for field F; the error text shows whether wrapping is in effect
				fn := "Fal" + id
				if suffix == "" {
					sc.ConvLines = append(sc.ConvLines, "extend "+fn)
					sc.FuncsSrc += fmt.Sprintf("func %s(s int) (string, error) {\n\tif s < 0 { return \"\", &Boom{V: s} }\n\treturn fmt.Sprint(\"f\", s), nil\n}\n", fn)
					sc.Conv.Extends = append(sc.Conv.Extends, &model.Custom{Name: fn, Src: tInt, Dst: tStr, Err: true})
					sc.Funcs[fn] = "conv." + fn
				}
				sd := &space.Decl{Pkg: "in", Name: "S" + id + suffix, Under: space.St(f("F", tInt))}
				td := &space.Decl{Pkg: "out", Name: "T" + id + suffix, Under: space.St(f("F", tStr))}
				sc.Decls = append(sc.Decls, sd, td)
				mm := &model.Method{Name: "Convert" + suffix, Src: space.N(sd), Dst: space.N(td), Set: eff, Fields: map[string]*model.FieldCfg{}, HasErr: true}
				sc.Conv.Methods = append(sc.Conv.Methods, mm)
				m := &ScMethod{Name: "Convert" + suffix, Params: "source " + space.N(sd).Go("conv"), Result: "(" + space.N(td).Go("conv") + ", error)", Lines: mlines, M: mm}
				sc.Methods = append(sc.Methods, m)
				return m
			}},
		{key: "update:ignoreZeroValueField", apply: func(s *model.Settings, v bool) { s.ZeroBasic, s.ZeroStruct, s.ZeroNillable = v, v, v }, mode: "update",
			build: updateProbe(u)},
		{key: "update:ignoreZeroValueField:basic", apply: func(s *model.Settings, v bool) { s.ZeroBasic = v }, mode: "update",
			build: updateProbe(u)},
		{key: "default:update", apply: func(s *model.Settings, v bool) { s.DefaultUpdate = v }, mode: "default",
			build: func(sc *Scenario, id, suffix string, mlines []string, eff model.Settings) *ScMethod {
				sd := &space.Decl{Pkg: "in", Name: "S" + id + suffix, Under: space.St(f("A", tInt))}
				td := &space.Decl{Pkg: "out", Name: "T" + id + suffix, Under: space.St(f("A", tInt), f("Keep", tStr))}
				sc.Decls = append(sc.Decls, sd, td)
				fn := "New" + id + suffix
				sc.FuncsSrc += fmt.Sprintf("func %s() *%s { return &%s{A: 77, Keep: \"kept\"} }\n", fn, space.N(td).Go("conv"), space.N(td).Go("conv"))
				sc.Funcs[fn] = "conv." + fn
				cust := &model.Custom{Name: fn, Dst: space.P(space.N(td)), ArgsFmt: []string{}}
				mm := &model.Method{Name: "Convert" + suffix, Src: space.P(space.N(sd)), Dst: space.P(space.N(td)), Set: eff,
					Fields: map[string]*model.FieldCfg{"Keep": {Ignore: true}}, NFieldSettings: 1, Default: cust}
				sc.Conv.Methods = append(sc.Conv.Methods, mm)
				ls := append([]string{"ignore Keep", "default " + fn}, mlines...)
				m := &ScMethod{Name: "Convert" + suffix, Params: "source " + space.P(space.N(sd)).Go("conv"), Result: space.P(space.N(td)).Go("conv"), Lines: ls, M: mm}
				sc.Methods = append(sc.Methods, m)
				return m
			}},
	}
}

func updateProbe(u *space.Universe) func(sc *Scenario, id, suffix string, mlines []string, eff model.Settings) *ScMethod {
	return func(sc *Scenario, id, suffix string, mlines []string, eff model.Settings) *ScMethod {
		sd := &space.Decl{Pkg: "in", Name: "S" + id + suffix, Under: space.St(f("A", tInt), f("N", space.St(f("X", tInt))), f("M", space.M(tStr, tInt)))}
		td := &space.Decl{Pkg: "out", Name: "T" + id + suffix, Under: space.St(f("A", tInt), f("N", space.St(f("X", tInt))), f("M", space.M(tStr, tInt)))}
		sc.Decls = append(sc.Decls, sd, td)
		mm := &model.Method{Name: "Convert" + suffix, Src: space.N(sd), Dst: space.P(space.N(td)), Set: eff, Fields: map[string]*model.FieldCfg{}, Update: true}
		sc.Conv.Methods = append(sc.Conv.Methods, mm)
		ls := append([]string{"update target"}, mlines...)
		m := &ScMethod{Name: "Convert" + suffix, Params: "source " + space.N(sd).Go("conv") + ", target " + space.P(space.N(td)).Go("conv"), Result: "", Lines: ls, M: mm}
		sc.Methods = append(sc.Methods, m)
		if suffix == "" {
			sc.SrcIdx, sc.TgtIdx = 0, 1
		}
		return m
	}
}

func buildC12(id string, p probe, cli, cv, me string, sibling bool) *Scenario {
	sc := &Scenario{ID: "R" + id, PropGen: "C12", PropVal: "C12", Test: "Convert", Funcs: map[string]string{},
		Desc: map[string]any{"class": "setting=" + p.key, "cli": cli, "converter": cv, "method": me, "sibling": sibling}}
	conv := &model.Converter{OutPkg: "conv/generated", LitPkg: "conv"}
	sc.Conv = conv
	sc.Global = boolLine(p.key, cli)
	sc.ConvLines = append(sc.ConvLines, boolLine(p.key, cv)...)
	p.apply(&conv.Set, resolveBool(p.def, cv, cli))
	var eff model.Settings
	eff = conv.Set
	p.apply(&eff, resolveBool(p.def, me, cv, cli))
	p.build(sc, id, "", boolLine(p.key, me), eff)
	if sibling {
		sib := opposite(me)
		var se model.Settings
		se = conv.Set
		p.apply(&se, resolveBool(p.def, sib, cv, cli))
		p.build(sc, id, "Sib", boolLine(p.key, sib), se)
	}
	switch p.mode {
	case "wrap":
		sc.Mode = "value"
		if eff.WrapErrors {
			sc.Mode += ",wraperrors,mustwrap"
		} else {
			sc.Mode += ",nowrap"
		}
	case "update":
		sc.Mode = "update"
	case "default":
		sc.Mode = "value,nilkeeps"
	default:
		sc.Mode = "value"
	}
	return sc
}

// C12Scenarios: full 4^3 placement table per boolean setting, with and without a sibling method of opposite value.
func C12Scenarios(tier string) []*Scenario {
	var out []*Scenario
	n := 0
	for _, p := range c12Probes() {
		for _, cli := range boolForms {
			for _, cv := range boolForms {
				for _, me := range boolForms {
					n++
					out = append(out, buildC12(fmt.Sprintf("%05d", n), p, cli, cv, me, false))
					if tier == "thorough" || cli == "absent" || cli == "yes" {
						n++
						out = append(out, buildC12(fmt.Sprintf("%05d", n), p, cli, cv, me, true))
					}
				}
			}
		}
	}
	// two lines of one key at one level (several -g flags, two comment lines): the later line is in effect
	for _, p := range c12Probes() {
		for _, twice := range []string{"yes-then-no", "no-then-yes"} {
			for _, lvl := range []int{0, 1, 2} {
				for _, other := range []string{"absent", "yes", "no"} {
					forms := []string{"absent", "absent", "absent"}
					forms[lvl] = twice
					forms[(lvl+1)%3] = other
					n++
					out = append(out, buildC12(fmt.Sprintf("%05d", n), p, forms[0], forms[1], forms[2], false))
				}
			}
		}
	}
	out = append(out, c12StringSettings(&n)...)
	out = append(out, c12WrapUsing(&n)...)
	out = append(out, c12RelatedZeroKeys(&n)...)
	out = append(out, c12CtxRegex(&n)...)
	out = append(out, ctxRegexFuncScenarios(&n, "C12")...)
	out = append(out, nestedScenarios(80000, "C12")...)
	out = append(out, mixedSkipCopyRecursive(85000, "C12")...)
	sort.SliceStable(out, func(i, j int) bool { return strings.Join(out[i].Global, "\x00") < strings.Join(out[j].Global, "\x00") })
	return out
}

// c12StringSettings: enum:unknown and wrapErrorsUsing / wrapErrors conflicts across levels.
func c12StringSettings(n *int) []*Scenario {
	var out []*Scenario
	vals := []string{"", "@ignore", "@panic"}
	for _, cli := range vals {
		for _, cv := range vals {
			for _, me := range vals {
				*n++
				id := fmt.Sprintf("%05d", *n)
				sc := &Scenario{ID: "R" + id, PropGen: "C12", PropVal: "C12", Test: "Convert", Funcs: map[string]string{},
					Desc: map[string]any{"class": "setting=enum:unknown", "cli": cli, "converter": cv, "method": me}}
				conv := &model.Converter{OutPkg: "conv/generated", LitPkg: "conv"}
				sc.Conv = conv
				first := func(xs ...string) string {
					for _, x := range xs {
						if x != "" {
							return x
						}
					}
					return ""
				}
				var mlines []string
				if cli != "" {
					sc.Global = []string{"enum:unknown " + cli}
				}
				if cv != "" {
					sc.ConvLines = []string{"enum:unknown " + cv}
				}
				if me != "" {
					mlines = []string{"enum:unknown " + me}
				}
				conv.Set.EnumUnknown = first(cv, cli)
				eff := conv.Set
				eff.EnumUnknown = first(me, cv, cli)
				se := &space.Decl{Pkg: "in", Name: "E" + id, Under: tInt, Consts: []space.Const{{Name: "E" + id + "A", Lit: "1"}}}
				te := &space.Decl{Pkg: "out", Name: "E" + id, Under: tInt, Consts: []space.Const{{Name: "E" + id + "A", Lit: "5"}}}
				sc.Decls = []*space.Decl{se, te}
				mm := &model.Method{Name: "Convert", Src: space.N(se), Dst: space.N(te), Set: eff, Fields: map[string]*model.FieldCfg{}, EnumMap: map[string]string{}}
				conv.Methods = []*model.Method{mm}
				sc.Methods = []*ScMethod{{Name: "Convert", Params: "source " + space.N(se).Go("conv"), Result: space.N(te).Go("conv"), Lines: mlines, M: mm}}
				sc.Mode = "value"
				out = append(out, sc)
			}
		}
	}
	return out
}

// ---- misuse table: settings at wrong levels, unknown settings, malformed values, conflicting pair ----

type misuse struct {
	Level string // cli | converter | method
	Line  string
	Why   string
	// OK: the line is valid at this level (control cases)
	OK bool
}

func c12Misuses() []misuse {
	var out []misuse
	convOnly := []string{"name Foo", "output:file ./x/y.go", "output:package vx/conv/x", "output:format function", "output:raw var x = 1", "struct:comment hello", "extend Ext", "enum:exclude vx/in:Color"}
	methOnly := []string{"map A B", "ignore A", "autoMap N", "update target", "context ctxa", "default NewT", "enum:map A B", "enum:transform regex a b"}
	for _, l := range convOnly {
		out = append(out, misuse{"method", l, "converter-only setting on a method", false})
	}
	for _, l := range methOnly {
		out = append(out, misuse{"converter", l, "method-only setting on a converter", false})
		out = append(out, misuse{"cli", l, "method-only setting on the command line", false})
	}
	for _, lvl := range []string{"cli", "converter", "method"} {
		out = append(out, misuse{lvl, "nonsense", "unknown setting", false}, misuse{lvl, "nonsense yes", "unknown setting", false},
			misuse{lvl, "ignoremissing", "unknown setting (wrong case)", false})
		for _, key := range []string{"ignoreMissing", "skipCopySameType", "wrapErrors", "enum", "update:ignoreZeroValueField:basic", "default:update", "matchIgnoreCase"} {
			out = append(out, misuse{lvl, key + " maybe", "malformed boolean", false}, misuse{lvl, key + " YES", "malformed boolean", false},
				misuse{lvl, key + " yes no", "two values", false}, misuse{lvl, key + " 1", "malformed boolean", false},
				misuse{lvl, key + " yes\t", "trailing whitespace is fine", true}, misuse{lvl, key + "  no", "extra space is fine", true})
		}
		for _, key := range []string{"wrapErrorsUsing", "enum:unknown", "arg:context:regex"} {
			out = append(out, misuse{lvl, key, "missing value", false}, misuse{lvl, key + " a b", "two values", false})
		}
		out = append(out, misuse{lvl, "arg:context:regex (", "invalid regex", false}, misuse{lvl, "enum:unknown @bogus", "invalid action", false})
		// near misses of every existing key: longer, shorter, extra segment, other case. None of them is a setting.
		for _, nm := range nearMissKeys() {
			for _, val := range []string{"", " yes", " A B"} {
				out = append(out, misuse{lvl, nm + val, "unknown setting (near miss of an existing key)", false})
			}
		}
	}
	return out
}

// allSettingKeys: every documented setting key (converter, method and common ones).
var allSettingKeys = []string{"converter", "variables", "name", "output:file", "output:package", "output:format", "output:raw", "struct:comment", "extend", "enum:exclude",
	"wrapErrors", "wrapErrorsUsing", "ignoreUnexported", "update:ignoreZeroValueField", "update:ignoreZeroValueField:basic",
	"update:ignoreZeroValueField:struct", "update:ignoreZeroValueField:nillable", "default:update", "matchIgnoreCase", "ignoreMissing",
	"skipCopySameType", "useZeroValueOnPointerInconsistency", "useUnderlyingTypeMethods", "enum", "arg:context:regex", "enum:unknown",
	"map", "ignore", "update", "context", "enum:map", "enum:transform", "autoMap", "default"}

func nearMissKeys() []string {
	valid := map[string]bool{}
	for _, k := range allSettingKeys {
		valid[k] = true
	}
	seen := map[string]bool{}
	var out []string
	add := func(k string) {
		if k == "" || valid[k] || seen[k] || strings.ContainsAny(k, " \t") {
			return
		}
		seen[k] = true
		out = append(out, k)
	}
	for _, k := range allSettingKeys {
		add(k + "s")
		add(k + ":")
		add(k + ":x")
		add(k + ":pointer")
		add(k[:len(k)-1])
		add(strings.ToUpper(k[:1]) + k[1:])
		add(strings.ToLower(k))
		if i := strings.LastIndex(k, ":"); i >= 0 {
			add(k[:i] + k[i+1:]) // segment separator dropped
			add(k[:i] + "::" + k[i+1:])
		}
	}
	sort.Strings(out)
	return out
}

// conflict cases: wrapErrors with wrapErrorsUsing in every level combination.
type conflict struct {
	First, Second   string // level of wrapErrorsUsing / level of wrapErrors (or reversed)
	UsingFirst      bool
	WrapErrorsValue string // "", "yes", "no"
}

// RunC12Misuse runs the misuse and conflict tables in-process (one converter each) and on the CLI for a subset.
func RunC12Misuse(run *ev.Run) (int, error) {
	mis := c12Misuses()
	mod, err := emit.NewModule("c12m")
	if err != nil {
		return 0, err
	}
	defer mod.Remove()
	u := space.StdUniverse()
	mod.AddUniverse(u)
	var b strings.Builder
	b.WriteString(convHeaderWith(nil))
	b.WriteString("func Ext(s int) string { return \"\" }\nfunc NewT() out.P { return out.P{} }\n")
	b.WriteString("// goverter:converter\ntype M interface {\n\tConvert(source in.P) out.P\n}\n")
	mod.Add("conv/conv.go", b.String())
	mod.Add("werr/werr.go", werrSource)
	if err := mod.Write(); err != nil {
		return 0, err
	}
	sess, err := drive.Open(mod.Dir, []string{"./conv"}, nil)
	if err != nil {
		return 0, err
	}
	rc := sess.Raws["M"]
	n := 0
	check := func(inj *drive.Inject, wantFail bool, locs []string, desc map[string]any, site string) {
		n++
		out := sess.Gen(rc, inj)
		run.Outcome(fmt.Sprintf("misuse:want-fail=%v/real:%s", wantFail, out.Kind))
		switch {
		case out.Kind == drive.Panic:
			// C13's business
		case wantFail && out.Kind == drive.Files:
			run.Report(ev.Violation{Site: site, Symptom: "invalid-setting-accepted", Detail: fmt.Sprintf("%v was accepted", desc), Case: desc})
		case !wantFail && out.Kind == drive.Error:
			run.Report(ev.Violation{Site: site, Symptom: "valid-setting-rejected", Detail: fmt.Sprintf("%v was rejected:\n%s", desc, out.Diag), Case: desc})
		case wantFail:
			found := false
			for _, l := range locs {
				if strings.Contains(out.Diag, l) {
					found = true
				}
			}
			if !found {
				run.Report(ev.Violation{Site: site + "|location", Symptom: "diagnostic-without-location", Detail: fmt.Sprintf("%v: diagnostic does not name where the setting was written (expected one of %v):\n%s", desc, locs, out.Diag), Case: desc})
			}
		}
	}
	inject := func(level, line string) *drive.Inject {
		switch level {
		case "cli":
			return &drive.Inject{Global: []string{line}}
		case "converter":
			return &drive.Inject{Converter: []string{line}}
		}
		return &drive.Inject{Method: map[string][]string{"Convert": {line}}}
	}
	locOf := func(level string) []string {
		if level == "cli" {
			return []string{"command line"}
		}
		return []string{"conv.go:"}
	}
	for _, m := range mis {
		desc := map[string]any{"kind": "misuse", "level": m.Level, "line": m.Line, "why": m.Why}
		check(inject(m.Level, m.Line), !m.OK, locOf(m.Level), desc, "misuse:"+m.Why+"@"+m.Level)
	}
	// conflicting pair in every level combination and order; wrapErrors value ∈ {bare, yes, no}
	levels := []string{"cli", "converter", "method"}
	rank := map[string]int{"cli": 0, "converter": 1, "method": 2}
	for _, lu := range levels {
		for _, lw := range levels {
			for _, wv := range []string{"wrapErrors", "wrapErrors yes", "wrapErrors no"} {
				for _, usingFirst := range []bool{true, false} {
					if lu != lw && (rank[lu] < rank[lw]) != usingFirst {
						continue // order between levels is fixed: cli, converter, method
					}
					inj := &drive.Inject{Method: map[string][]string{}}
					addLine := func(level, line string) {
						switch level {
						case "cli":
							inj.Global = append(inj.Global, line)
						case "converter":
							inj.Converter = append(inj.Converter, line)
						default:
							inj.Method["Convert"] = append(inj.Method["Convert"], line)
						}
					}
					if usingFirst {
						addLine(lu, "wrapErrorsUsing vx/werr")
						addLine(lw, wv)
					} else {
						addLine(lw, wv)
						addLine(lu, "wrapErrorsUsing vx/werr")
					}
					// conflict: the later line meets the earlier one enabled/in effect. "wrapErrors no" first, then
					// wrapErrorsUsing is no conflict (wrapping was disabled).
					wantFail := usingFirst || wv != "wrapErrors no"
					later := lw
					if !usingFirst {
						later = lu
					}
					desc := map[string]any{"kind": "conflict", "wrapErrorsUsing_at": lu, "wrapErrors_at": lw, "wrapErrors_line": wv, "using_first": usingFirst}
					check(inj, wantFail, locOf(later), desc, fmt.Sprintf("conflict:%s/using-first=%v", wv, usingFirst))
				}
			}
		}
	}
	return n, nil
}

// C12Worker shards by command line (each distinct -g vector is one module + one CLI batch).
func C12Worker(w *pool.W, shard, n int, tier string, runtime bool) error {
	all := C12Scenarios(tier)
	groups := map[string][]*Scenario{}
	var keys []string
	for _, sc := range all {
		k := strings.Join(sc.Global, "\x00")
		if _, ok := groups[k]; !ok {
			keys = append(keys, k)
		}
		groups[k] = append(groups[k], sc)
	}
	sort.Strings(keys)
	var mine []*Scenario
	for i, k := range keys {
		if i%n == shard {
			mine = append(mine, groups[k]...)
		}
	}
	return ScenarioWorker(w, mine, tier, runtime)
}

// ---- shared sub-method variants: a method-level setting must not leak into generated sub-methods that a sibling reuses ----

// buildNested: two methods whose structs both contain the same nested named pair N -> N'. Only the method named
// first carries the method-level setting. The nested pair is converted by one generated sub-method that runs under
// the converter-level value; order = which method sorts first ("Aaa" < "Convert" < "Zzz").
func buildNested(id string, key string, apply func(*model.Settings, bool), nestedS, nestedT []space.Field, otherName string, cv string, mode string, prop string) *Scenario {
	sc := &Scenario{ID: "N" + id, PropGen: prop, PropVal: prop, Test: "Convert", Funcs: map[string]string{},
		Desc: map[string]any{"class": "nested-submethod setting=" + key + " other=" + otherName, "converter": cv}}
	conv := &model.Converter{OutPkg: "conv/generated", LitPkg: "conv"}
	sc.Conv = conv
	sc.ConvLines = append(sc.ConvLines, boolLine(key, cv)...)
	apply(&conv.Set, resolveBool(false, cv))
	ns := &space.Decl{Pkg: "in", Name: "N" + id, Under: space.St(nestedS...)}
	nt := &space.Decl{Pkg: "out", Name: "N" + id, Under: space.St(nestedT...)}
	sc.Decls = append(sc.Decls, ns, nt)
	add := func(name string, suffix string, lines []string, set model.Settings) {
		sd := &space.Decl{Pkg: "in", Name: "S" + id + suffix, Under: space.St(f("A", tInt), f("N", space.N(ns)))}
		td := &space.Decl{Pkg: "out", Name: "T" + id + suffix, Under: space.St(f("A", tInt), f("N", space.N(nt)))}
		sc.Decls = append(sc.Decls, sd, td)
		mm := &model.Method{Name: name, Src: space.N(sd), Dst: space.N(td), Set: set, Fields: map[string]*model.FieldCfg{}}
		conv.Methods = append(conv.Methods, mm)
		sc.Methods = append(sc.Methods, &ScMethod{Name: name, Params: "source " + space.N(sd).Go("conv"), Result: space.N(td).Go("conv"), Lines: lines, M: mm})
	}
	on := conv.Set
	apply(&on, true)
	add("Convert", "", nil, conv.Set)
	add(otherName, "O", []string{key}, on)
	sc.Mode = mode
	return sc
}

func nestedScenarios(start int, prop string) []*Scenario {
	var out []*Scenario
	n := start
	type np struct {
		key   string
		apply func(*model.Settings, bool)
		s, t  []space.Field
		mode  string
	}
	probes := []np{
		{"ignoreMissing", func(s *model.Settings, v bool) { s.IgnoreMissing = v }, []space.Field{f("A", tInt)}, []space.Field{f("A", tInt), f("D", tInt)}, "value"},
		{"ignoreUnexported", func(s *model.Settings, v bool) { s.IgnoreUnexported = v }, []space.Field{f("A", tInt), f("x", tInt)}, []space.Field{f("A", tInt), f("x", tInt)}, "value"},
		{"matchIgnoreCase", func(s *model.Settings, v bool) { s.MatchIgnoreCase = v }, []space.Field{f("NAME", tStr)}, []space.Field{f("Name", tStr)}, "value"},
		{"useZeroValueOnPointerInconsistency", func(s *model.Settings, v bool) { s.UseZeroPtr = v }, []space.Field{f("A", space.P(tInt))}, []space.Field{f("A", tInt)}, "value"},
		{"skipCopySameType", func(s *model.Settings, v bool) { s.SkipCopySameType = v }, []space.Field{f("F", space.Any())}, []space.Field{f("F", space.Any())}, "value"},
		// run-time observable: identical field types on both sides, so generation succeeds either way and only aliasing differs
		{"skipCopySameType", func(s *model.Settings, v bool) { s.SkipCopySameType = v },
			[]space.Field{f("Tags", space.S(tStr)), f("Score", space.P(tInt)), f("Attrs", space.M(tStr, tStr))},
			[]space.Field{f("Tags", space.S(tStr)), f("Score", space.P(tInt)), f("Attrs", space.M(tStr, tStr))}, "value,alias,nomutate"},
	}
	for _, p := range probes {
		for _, other := range []string{"Aaa", "Zzz"} {
			for _, cv := range []string{"absent", "yes", "no"} {
				n++
				out = append(out, buildNested(fmt.Sprintf("%05d", n), p.key, p.apply, p.s, p.t, other, cv, p.mode, prop))
			}
		}
	}
	return out
}

// mixedSkipCopyRecursive: converter-level and method-level skipCopySameType disagree on a self-referential struct with a
// field of identical named type: the method is built twice (recursion marks it dirty) and helpers created in the first
// pass must still be used (or not be emitted) after the second.
func mixedSkipCopyRecursive(start int, prop string) []*Scenario {
	var out []*Scenario
	n := start
	for _, cv := range []string{"absent", "yes", "no"} {
		for _, me := range []string{"absent", "yes", "no"} {
			for _, shape := range []string{"ptr-ptr", "val-val", "slice"} {
				n++
				id := fmt.Sprintf("%05d", n)
				sc := &Scenario{ID: "N" + id, PropGen: prop, PropVal: prop, Test: "Convert", Funcs: map[string]string{},
					Desc: map[string]any{"class": "mixed-skipcopy-recursive shape=" + shape, "converter": cv, "method": me}}
				conv := &model.Converter{OutPkg: "conv/generated", LitPkg: "conv"}
				sc.Conv = conv
				sc.ConvLines = append(sc.ConvLines, boolLine("skipCopySameType", cv)...)
				conv.Set.SkipCopySameType = resolveBool(false, cv)
				eff := conv.Set
				eff.SkipCopySameType = resolveBool(false, me, cv)
				inner := &space.Decl{Pkg: "in", Name: "I" + id, Under: space.St(f("Tags", space.S(tStr)), f("Q", space.P(tInt)))}
				x := &space.Decl{Pkg: "in", Name: "X" + id}
				y := &space.Decl{Pkg: "out", Name: "Y" + id}
				x.Under = space.St(f("Name", tStr), f("Inner", space.N(inner)), f("Children", space.S(space.N(x))))
				y.Under = space.St(f("Name", tStr), f("Inner", space.N(inner)), f("Children", space.S(space.N(y))))
				sc.Decls = []*space.Decl{inner, x, y}
				src, dst := space.N(x), space.N(y)
				switch shape {
				case "ptr-ptr":
					src, dst = space.P(src), space.P(dst)
				case "slice":
					src, dst = space.S(src), space.S(dst)
				}
				mm := &model.Method{Name: "Convert", Src: src, Dst: dst, Set: eff, Fields: map[string]*model.FieldCfg{}}
				conv.Methods = []*model.Method{mm}
				sc.Methods = []*ScMethod{{Name: "Convert", Params: "source " + src.Go("conv"), Result: dst.Go("conv"), Lines: boolLine("skipCopySameType", me), M: mm}}
				sc.Mode = "value,alias,nomutate"
				out = append(out, sc)
			}
		}
	}
	return out
}

// c12WrapUsing: wrapErrorsUsing PKG written at every level combination. The package in effect at the method's own
// fallible sites is the first defined of (method, converter, command line); generated sub-methods use the first
// defined of (converter, command line). Both are observed at run time through the wrapper type's VerifPkg().
func c12WrapUsing(n *int) []*Scenario {
	var out []*Scenario
	vals := []string{"", "vx/werr", "vx/werr2"}
	first := func(xs ...string) string {
		for _, x := range xs {
			if x != "" {
				return x
			}
		}
		return ""
	}
	short := func(p string) string { return strings.TrimPrefix(p, "vx/") }
	for _, cli := range vals {
		for _, cv := range vals {
			for _, me := range vals {
				for _, nested := range []bool{false, true} {
					*n++
					id := fmt.Sprintf("%05d", *n)
					sc := &Scenario{ID: "W" + id, PropGen: "C12", PropVal: "C12", Test: "Convert", Funcs: map[string]string{},
						Desc: map[string]any{"class": fmt.Sprintf("setting=wrapErrorsUsing nested=%v", nested), "cli": cli, "converter": cv, "method": me}}
					conv := &model.Converter{OutPkg: "conv/generated", LitPkg: "conv"}
					sc.Conv = conv
					sc.Files = map[string]string{"werr/werr.go": werrSource, "werr2/werr.go": strings.ReplaceAll(werrSource, "werr", "werr2")}
					var mlines []string
					if cli != "" {
						sc.Global = []string{"wrapErrorsUsing " + cli}
					}
					if cv != "" {
						sc.ConvLines = []string{"wrapErrorsUsing " + cv}
					}
					if me != "" {
						mlines = []string{"wrapErrorsUsing " + me}
					}
					conv.Set.WrapErrorsUsing = first(cv, cli)
					eff := conv.Set
					eff.WrapErrorsUsing = first(me, cv, cli)
					fn := "Wf" + id
					sc.ConvLines = append(sc.ConvLines, "extend "+fn)
					sc.FuncsSrc = fmt.Sprintf("func %s(s int) (string, error) {\n\tif s < 0 { return \"\", &Boom{V: s} }\n\treturn fmt.Sprint(\"w\", s), nil\n}\n", fn)
					conv.Extends = []*model.Custom{{Name: fn, Src: tInt, Dst: tStr, Err: true, ArgsFmt: []string{"src"}}}
					sc.Funcs[fn] = "conv." + fn
					s, t := space.S(tInt), space.S(tStr)
					if nested {
						sd := &space.Decl{Pkg: "in", Name: "W" + id, Under: space.St(f("V", tInt))}
						td := &space.Decl{Pkg: "out", Name: "W" + id, Under: space.St(f("V", tStr))}
						sc.Decls = []*space.Decl{sd, td}
						s, t = space.S(space.N(sd)), space.S(space.N(td))
					}
					mm := &model.Method{Name: "Convert", Src: s, Dst: t, Set: eff, Fields: map[string]*model.FieldCfg{}, HasErr: true}
					conv.Methods = []*model.Method{mm}
					sc.Methods = []*ScMethod{{Name: "Convert", Params: "source " + s.Go("conv"), Result: "(" + t.Go("conv") + ", error)", Lines: mlines, M: mm}}
					sc.Mode = "value,nomutate"
					outer, inner := eff.WrapErrorsUsing, conv.Set.WrapErrorsUsing
					switch {
					case outer == "":
						sc.Mode += ",nowrap"
					case !nested:
						sc.Mode += ",wrapusing,wrappkg:" + short(outer) + ",wrapcount:1"
					case inner == "":
						// the method wraps the index, the generated element method does not wrap the field
						sc.Mode += ",wrapusing-partial,wrappkg:" + short(outer) + ",wrapcount:1"
					default:
						sc.Mode += ",wrapusing,wrappkg:" + short(outer) + ",wrappkg-inner:" + short(inner) + ",wrapcount:2"
					}
					out = append(out, sc)
				}
			}
		}
	}
	return out
}

// c12CtxRegex: arg:context:regex written at every level combination; the expression in effect for the method's own
// signature is the first defined of (method, converter, command line). A method whose second parameter is not a
// context has two sources and must be rejected.
func c12CtxRegex(n *int) []*Scenario {
	var out []*Scenario
	vals := []string{"", "^ctx", "^zzz"}
	for _, cli := range vals {
		for _, cv := range vals {
			for _, me := range vals {
				*n++
				id := fmt.Sprintf("%05d", *n)
				sc := &Scenario{ID: "X" + id, PropGen: "C12", PropVal: "C12", Test: "Convert", Funcs: map[string]string{},
					Desc: map[string]any{"class": "setting=arg:context:regex", "cli": cli, "converter": cv, "method": me}}
				conv := &model.Converter{OutPkg: "conv/generated", LitPkg: "conv"}
				sc.Conv = conv
				var mlines []string
				eff := ""
				if cli != "" {
					sc.Global = []string{"arg:context:regex " + cli}
					eff = cli
				}
				if cv != "" {
					sc.ConvLines = []string{"arg:context:regex " + cv}
					eff = cv
				}
				if me != "" {
					mlines = []string{"arg:context:regex " + me}
					eff = me
				}
				fn := "Xf" + id
				sc.ConvLines = append(sc.ConvLines, "extend "+fn)
				sc.FuncsSrc = fmt.Sprintf("// goverter:context qv\nfunc %s(s int, qv string) string { return fmt.Sprint(s, qv) }\n", fn)
				conv.Extends = []*model.Custom{{Name: fn, Src: tInt, Dst: tStr, Ctx: []*space.Ty{tStr}, ArgsFmt: []string{"src", "ctx:0"}}}
				sc.Funcs[fn] = "conv." + fn
				s, t := space.S(tInt), space.S(tStr)
				mm := &model.Method{Name: "Convert", Src: s, Dst: t, Set: conv.Set, Fields: map[string]*model.FieldCfg{}, CtxTypes: []*space.Ty{tStr}}
				conv.Methods = []*model.Method{mm}
				sc.Methods = []*ScMethod{{Name: "Convert", Params: "source " + s.Go("conv") + ", ctxa string", Result: t.Go("conv"), Lines: mlines, M: mm}}
				sc.SrcIdx, sc.CtxIdx = 0, []int{1}
				sc.Mode = "value,nomutate"
				if eff != "^ctx" {
					sc.Forced, sc.ForcedReject = true, "parameter ctxa is not a context: two source parameters"
				}
				out = append(out, sc)
			}
		}
	}
	return out
}

// c12RelatedZeroKeys: update:ignoreZeroValueField and its three specific forms written as two lines with different keys
// at every pair of levels (and in both orders inside one level). The lines apply in the order command line, converter,
// method (source order inside a level): the general key sets all three categories, a specific key sets one.
func c12RelatedZeroKeys(n *int) []*Scenario {
	type zk struct {
		key   string
		apply func(s *model.Settings, v bool)
	}
	keys := []zk{
		{"update:ignoreZeroValueField", func(s *model.Settings, v bool) { s.ZeroBasic, s.ZeroStruct, s.ZeroNillable = v, v, v }},
		{"update:ignoreZeroValueField:basic", func(s *model.Settings, v bool) { s.ZeroBasic = v }},
		{"update:ignoreZeroValueField:struct", func(s *model.Settings, v bool) { s.ZeroStruct = v }},
		{"update:ignoreZeroValueField:nillable", func(s *model.Settings, v bool) { s.ZeroNillable = v }},
	}
	levels := []string{"cli", "converter", "method"}
	u := space.StdUniverse()
	probe := updateProbe(u)
	var out []*Scenario
	for la := 0; la < 3; la++ {
		for lb := la; lb < 3; lb++ {
			for _, ka := range keys {
				for _, kb := range keys {
					if ka.key == kb.key {
						continue
					}
					for _, va := range []bool{true, false} {
						for _, vb := range []bool{true, false} {
							*n++
							id := fmt.Sprintf("%05d", *n)
							val := map[bool]string{true: " yes", false: " no"}
							sc := &Scenario{ID: "Z" + id, PropGen: "C12", PropVal: "C12", Test: "Convert", Funcs: map[string]string{},
								Desc: map[string]any{"class": "related-keys " + levels[la] + ">" + levels[lb], "first": ka.key + val[va] + "@" + levels[la], "second": kb.key + val[vb] + "@" + levels[lb]}}
							conv := &model.Converter{OutPkg: "conv/generated", LitPkg: "conv"}
							sc.Conv = conv
							var mlines []string
							var eff model.Settings
							place := func(level int, k zk, v bool) {
								line := k.key + val[v]
								switch level {
								case 0:
									sc.Global = append(sc.Global, line)
								case 1:
									sc.ConvLines = append(sc.ConvLines, line)
								case 2:
									mlines = append(mlines, line)
								}
							}
							place(la, ka, va)
							place(lb, kb, vb)
							// resolve in level order; la <= lb and the first line is written first inside a level
							if la < 2 {
								ka.apply(&conv.Set, va)
							}
							if lb < 2 {
								kb.apply(&conv.Set, vb)
							}
							eff = conv.Set
							if la == 2 {
								ka.apply(&eff, va)
							}
							if lb == 2 {
								kb.apply(&eff, vb)
							}
							probe(sc, id, "", mlines, eff)
							sc.Mode = "update"
							out = append(out, sc)
						}
					}
				}
			}
		}
	}
	return out
}

// ctxRegexFuncScenarios: arg:context:regex at every level combination, observed through the custom functions written on
// the METHOD: map F F | FUNC and default FUNC take a context parameter that is declared only by the expression in effect
// for that method (first of method, converter, command line). The method's own context parameter matches every
// non-empty expression of the menu, so only FUNC's classification varies.
func ctxRegexFuncScenarios(n *int, prop string) []*Scenario {
	var out []*Scenario
	vals := []string{"", "^c", "^ctxq"} // "^c" matches ctxa and ctxq; "^ctxq" matches only FUNC's parameter
	for _, site := range []string{"mapfunc", "default"} {
		for _, cli := range vals {
			for _, cv := range vals {
				for _, me := range vals {
					*n++
					id := fmt.Sprintf("%05d", *n)
					sc := &Scenario{ID: "XF" + id, PropGen: prop, PropVal: prop, Test: "Convert", Funcs: map[string]string{},
						Desc: map[string]any{"class": "setting=arg:context:regex site=" + site, "cli": cli, "converter": cv, "method": me}}
					conv := &model.Converter{OutPkg: "conv/generated", LitPkg: "conv"}
					sc.Conv = conv
					mlines := []string{"context ctxa"} // the method's own context is declared by name
					eff := ""
					if cli != "" {
						sc.Global = []string{"arg:context:regex " + cli}
						eff = cli
					}
					if cv != "" {
						sc.ConvLines = []string{"arg:context:regex " + cv}
						eff = cv
					}
					if me != "" {
						mlines = append([]string{"arg:context:regex " + me}, mlines...)
						eff = me
					}
					sd := &space.Decl{Pkg: "in", Name: "S" + id, Under: space.St(f("A", tInt))}
					td := &space.Decl{Pkg: "out", Name: "T" + id, Under: space.St(f("A", tStr))}
					sc.Decls = []*space.Decl{sd, td}
					sT, tT := space.N(sd), space.N(td)
					fn := "Xc" + id
					top := &model.Method{Name: "Convert", Src: sT, Dst: tT, Set: conv.Set, Fields: map[string]*model.FieldCfg{}, CtxTypes: []*space.Ty{tStr}}
					funcIsCtx := eff != "" // both non-empty expressions match ctxq
					switch site {
					case "mapfunc":
						sc.FuncsSrc = fmt.Sprintf("func %s(s int, ctxq string) string { return fmt.Sprint(s, ctxq) }\n", fn)
						mlines = append(mlines, "map A A | "+fn)
						top.Fields["A"] = &model.FieldCfg{Source: "A", Fn: &model.Custom{Name: fn, Src: tInt, Dst: tStr, Ctx: []*space.Ty{tStr}, ArgsFmt: []string{"src", "ctx:0"}}}
						top.NFieldSettings = 1
					case "default":
						sc.FuncsSrc = fmt.Sprintf("func %s(s %s, ctxq string) %s { return %s{A: \"d\" + ctxq} }\n", fn, sT.Go("conv"), tT.Go("conv"), tT.Go("conv"))
						sc.ConvLines = append(sc.ConvLines, "extend Ia"+id)
						sc.FuncsSrc += fmt.Sprintf("func Ia%s(s int) string { return fmt.Sprint(\"a\", s) }\n", id)
						conv.Extends = []*model.Custom{{Name: "Ia" + id, Src: tInt, Dst: tStr, ArgsFmt: []string{"src"}}}
						sc.Funcs["Ia"+id] = "conv.Ia" + id
						mlines = append(mlines, "default "+fn)
						top.Default = &model.Custom{Name: fn, Src: sT, Dst: tT, Ctx: []*space.Ty{tStr}, ArgsFmt: []string{"src", "ctx:0"}}
					}
					sc.Funcs[fn] = "conv." + fn
					conv.Methods = []*model.Method{top}
					sc.Methods = []*ScMethod{{Name: "Convert", Params: "source " + sT.Go("conv") + ", ctxa string", Result: tT.Go("conv"), Lines: mlines, M: top}}
					sc.SrcIdx, sc.CtxIdx = 0, []int{1}
					sc.Mode = "value,nomutate"
					if site == "default" {
						sc.Mode = "value,nilkeeps"
					}
					if !funcIsCtx {
						sc.Forced, sc.ForcedReject = true, "FUNC's second parameter is not a context: two source parameters"
					}
					out = append(out, sc)
				}
			}
		}
	}
	return out
}

// wholeSourceScenarios: goverter:map . F where F can hold the source itself (F of type *S or S, source S or *S). The
// field must receive a deep copy, never the source pointer.
func wholeSourceScenarios(start int, prop string) []*Scenario {
	var out []*Scenario
	n := start
	for _, srcPtr := range []bool{false, true} {
		for _, fieldPtr := range []bool{false, true} {
			for _, shape := range []string{"direct", "slice-of-pointers", "result-pointer"} {
				n++
				id := fmt.Sprintf("%05d", n)
				sc := &Scenario{ID: "N" + id, PropGen: prop, PropVal: prop, Test: "Convert", Funcs: map[string]string{},
					Desc: map[string]any{"class": fmt.Sprintf("whole-source-into-field srcptr=%v fieldptr=%v shape=%s", srcPtr, fieldPtr, shape)}}
				conv := &model.Converter{OutPkg: "conv/generated", LitPkg: "conv"}
				sc.Conv = conv
				sd := &space.Decl{Pkg: "in", Name: "M" + id, Under: space.St(f("A", tInt), f("Tags", space.S(tStr)), f("Q", space.P(tInt)))}
				ft := space.N(sd)
				if fieldPtr {
					ft = space.P(ft)
				}
				td := &space.Decl{Pkg: "out", Name: "V" + id, Under: space.St(f("A", tInt), f("Origin", ft))}
				sc.Decls = []*space.Decl{sd, td}
				sT, tT := space.N(sd), space.N(td)
				src := sT
				if srcPtr {
					src = space.P(sT)
				}
				dst := tT
				if shape == "result-pointer" {
					dst = space.P(tT)
				}
				item := &model.Method{Name: "Convert", Src: src, Dst: dst, Set: conv.Set, Fields: map[string]*model.FieldCfg{"Origin": {Source: "."}}, NFieldSettings: 1}
				sc.Methods = []*ScMethod{{Name: "Convert", Params: "source " + src.Go("conv"), Result: dst.Go("conv"), Lines: []string{"map . Origin"}, M: item}}
				conv.Methods = []*model.Method{item}
				if shape == "slice-of-pointers" {
					// the method is reused for the elements of a list
					item.Name = "Item"
					sc.Methods[0].Name = "Item"
					top := &model.Method{Name: "Convert", Src: space.S(src), Dst: space.S(dst), Set: conv.Set, Fields: map[string]*model.FieldCfg{}}
					conv.Methods = []*model.Method{top, item}
					sc.Methods = append([]*ScMethod{{Name: "Convert", Params: "source " + space.S(src).Go("conv"), Result: space.S(dst).Go("conv"), M: top}}, sc.Methods...)
				}
				sc.Mode = "value,alias,nomutate"
				out = append(out, sc)
			}
		}
	}
	return out
}
