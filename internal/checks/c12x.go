package checks

import (
	"bytes"
	"fmt"
	"os"
	"path/filepath"
	"sort"
	"strings"
	"sync"

	"verif/internal/drive"
	"verif/internal/emit"
	"verif/internal/ev"
	"verif/internal/fshist"
)

// ---- cross-converter interference: what one converter of a run is configured with must not change what a sibling
// converter of the same run gets. Differential oracle: the files a package receives in a joint run (gen ./pa ./pb)
// equal the files it receives when it is generated alone (gen ./pa, gen ./pb); a joint run fails iff one of the
// separate runs fails. ----

type xconvCase struct {
	name  string
	files map[string]string
	pkgs  []string // packages generated separately and jointly (each has its own output location)
	// sharedOutput: the converters write into one go package, so helper names legitimately depend on the siblings;
	// only the outcome and compilability are compared, not the bytes
	sharedOutput bool
}

// xconvGlobals: settings given on the command line (-g) in every run of the named case.
var xconvGlobals = map[string][]string{}

func xconvCases() []xconvCase {
	shEnums := "package sh\n\ntype Col int\n\nconst (\n\tColRed Col = 1\n\tColBlue Col = 2\n)\n\ntype Hue int\n\nconst (\n\tColRed2 Hue = 10\n\tHueRed Hue = 10\n\tHueBlue Hue = 20\n)\n"
	enumConv := func(pkg, extra, method string) string {
		return "package " + pkg + "\n\nimport \"vx/sh\"\n\n// goverter:converter\n" + extra + "type C interface {\n" + method + "}\n\nvar _ sh.Col\n"
	}
	structs := "package sh\n\ntype In struct {\n\tTags []string\n\tP *int\n\tM map[string]string\n\tany any\n}\ntype Out struct {\n\tTags []string\n\tP *int\n\tM map[string]string\n}\ntype Wrap struct{ In In }\ntype WrapOut struct{ In Out }\n"
	sconv := func(pkg, convLines, mlines string) string {
		return "package " + pkg + "\n\nimport \"vx/sh\"\n\n// goverter:converter\n" + convLines + "type C interface {\n" + mlines + "\tConvert(source sh.Wrap) sh.WrapOut\n}\n"
	}
	fnPkg := "package sh\n\ntype In struct{ Name string; Age int }\ntype Out struct{ Name string; Age int }\n\nfunc upper(s string) string { return s + \"!\" }\n\nfunc NormalizeAge(a int) int { return a + 1 }\nfunc normalizeName(s string) string { return s + \"?\" }\n\n"
	return []xconvCase{
		{"enum-excluded-in-one-converter", map[string]string{
			"sh/sh.go": shEnums,
			"pa/a.go":  enumConv("pa", "// goverter:enum:exclude vx/sh:Col\n// goverter:enum:exclude vx/sh:Hue\n", "\tConvert(source sh.Col) sh.Hue\n"),
			"pb/b.go":  enumConv("pb", "// goverter:enum:unknown @error\n", "\t// goverter:enum:map ColRed HueRed\n\t// goverter:enum:map ColBlue HueBlue\n\tConvert(source sh.Col) (sh.Hue, error)\n\tList(source []sh.Col) ([]sh.Hue, error)\n"),
		}, []string{"./pa", "./pb"}, false},
		{"enum-disabled-in-one-converter", map[string]string{
			"sh/sh.go": shEnums,
			"pa/a.go":  enumConv("pa", "// goverter:enum no\n", "\tConvert(source []sh.Col) []sh.Hue\n"),
			"pb/b.go":  enumConv("pb", "// goverter:enum:unknown @panic\n", "\t// goverter:enum:map ColRed HueRed\n\t// goverter:enum:map ColBlue HueBlue\n\tConvert(source sh.Col) sh.Hue\n"),
		}, []string{"./pa", "./pb"}, false},
		{"enum-disabled-on-one-method", map[string]string{
			"sh/sh.go": shEnums,
			"pa/a.go":  enumConv("pa", "// goverter:enum:unknown @ignore\n", "\t// goverter:enum no\n\tA(source struct{ F sh.Col }) struct{ F sh.Hue }\n"),
			"pb/b.go":  enumConv("pb", "// goverter:enum:unknown @ignore\n", "\t// goverter:enum:map ColRed HueRed\n\t// goverter:enum:map ColBlue HueBlue\n\tB(source sh.Col) sh.Hue\n\tL(source []sh.Col) []sh.Hue\n"),
		}, []string{"./pa", "./pb"}, false},
		{"skipcopy-in-one-converter", map[string]string{
			"sh/sh.go": strings.Replace(structs, "\tany any\n", "", 1),
			"pa/a.go":  sconv("pa", "// goverter:skipCopySameType\n", ""),
			"pb/b.go":  sconv("pb", "", ""),
		}, []string{"./pa", "./pb"}, false},
		{"method-level-settings-in-one-converter", map[string]string{
			"sh/sh.go": strings.Replace(structs, "\tany any\n", "", 1),
			"pa/a.go":  sconv("pa", "", "\t// goverter:skipCopySameType\n\t// goverter:useZeroValueOnPointerInconsistency\n"),
			"pb/b.go":  sconv("pb", "", ""),
		}, []string{"./pa", "./pb"}, false},
		{"ignore-unexported-in-one-converter", map[string]string{
			"sh/sh.go": strings.Replace(structs, "\tany any\n", "\thidden int\n", 1),
			"pa/a.go":  sconv("pa", "// goverter:ignoreUnexported\n// goverter:ignoreMissing\n// goverter:matchIgnoreCase\n", ""),
			"pb/b.go":  sconv("pb", "", ""),
		}, []string{"./pa", "./pb"}, false},
		{"unexported-function-usable-only-in-its-own-package", map[string]string{
			"sh/sh.go": fnPkg + "// goverter:variables\n// goverter:extend upper\nvar (\n\tLocal func(source In) Out\n)\n",
			"pb/b.go":  "package pb\n\nimport \"vx/sh\"\n\n// goverter:variables\n// goverter:extend vx/sh:upper\nvar (\n\tRemote func(source sh.In) sh.Out\n)\n",
		}, []string{"./sh", "./pb"}, false},
		{"regex-extend-sees-different-functions-per-output-package", map[string]string{
			"sh/sh.go": fnPkg + "// goverter:variables\n// goverter:extend (?i)normalize.*\nvar (\n\tLocal func(source In) Out\n)\n",
			"pb/b.go":  "package pb\n\nimport \"vx/sh\"\n\n// goverter:variables\n// goverter:extend vx/sh:(?i)normalize.*\nvar (\n\tRemote func(source sh.In) sh.Out\n)\n",
			"pc/c.go":  "package pc\n\nimport \"vx/sh\"\n\n// goverter:converter\n// goverter:output:format function\n// goverter:extend vx/sh:(?i)normalize.*\ntype F interface {\n\tConvF(source sh.In) sh.Out\n}\n",
		}, []string{"./sh", "./pb", "./pc"}, false},
		{"map-func-unexported-shared", map[string]string{
			"sh/sh.go": fnPkg + "// goverter:variables\nvar (\n\t// goverter:map Name | upper\n\tLocal func(source In) Out\n)\n",
			"pb/b.go":  "package pb\n\nimport \"vx/sh\"\n\n// goverter:variables\nvar (\n\t// goverter:map Name | vx/sh:upper\n\tRemote func(source sh.In) sh.Out\n)\n",
		}, []string{"./sh", "./pb"}, false},
		{"unexported-function-package-sorts-first", map[string]string{
			"aa/aa.go": strings.Replace(fnPkg, "package sh", "package aa", 1) + "// goverter:variables\n// goverter:extend upper\nvar (\n\tLocal func(source In) Out\n)\n",
			"pb/b.go":  "package pb\n\nimport \"vx/aa\"\n\n// goverter:variables\n// goverter:extend vx/aa:upper\nvar (\n\tRemote func(source aa.In) aa.Out\n)\n",
		}, []string{"./aa", "./pb"}, false},
		{"unexported-function-function-format-sorts-first", map[string]string{
			"aa/aa.go": strings.Replace(fnPkg, "package sh", "package aa", 1) + "// goverter:converter\n// goverter:output:format function\n// goverter:output:file ./aa_gen.go\n// goverter:output:package vx/aa\n// goverter:extend upper\ntype L interface {\n\tLocal(source In) Out\n}\n",
			"pb/b.go":  "package pb\n\nimport \"vx/aa\"\n\n// goverter:converter\n// goverter:output:format function\n// goverter:extend vx/aa:upper\ntype R interface {\n\tRemote(source aa.In) aa.Out\n}\n",
		}, []string{"./aa", "./pb"}, false},
		{"regex-extend-function-package-sorts-first", map[string]string{
			"aa/aa.go": strings.Replace(fnPkg, "package sh", "package aa", 1) + "// goverter:variables\n// goverter:extend (?i)normalize.*\nvar (\n\tLocal func(source In) Out\n)\n",
			"pb/b.go":  "package pb\n\nimport \"vx/aa\"\n\n// goverter:variables\n// goverter:extend vx/aa:(?i)normalize.*\nvar (\n\tRemote func(source aa.In) aa.Out\n)\n",
		}, []string{"./aa", "./pb"}, false},
		{"map-func-unexported-package-sorts-first", map[string]string{
			"aa/aa.go": strings.Replace(fnPkg, "package sh", "package aa", 1) + "// goverter:variables\nvar (\n\t// goverter:map Name | upper\n\tLocal func(source In) Out\n)\n",
			"pb/b.go":  "package pb\n\nimport \"vx/aa\"\n\n// goverter:variables\nvar (\n\t// goverter:map Name | vx/aa:upper\n\tRemote func(source aa.In) aa.Out\n)\n",
		}, []string{"./aa", "./pb"}, false},
		{"function-format-two-files-one-output-package", map[string]string{
			"sh/sh.go": "package sh\n\ntype N struct{ V int }\ntype M struct{ V int }\ntype In struct{ A N; L []N }\ntype Out struct{ A M; L []M }\n",
			"pa/a.go":  "package pa\n\nimport \"vx/sh\"\n\n// goverter:converter\n// goverter:output:format function\n// goverter:output:file ../gen/a.go\n// goverter:output:package vx/gen\ntype A interface {\n\tConvA(source sh.In) sh.Out\n}\n",
			"pb/b.go":  "package pb\n\nimport \"vx/sh\"\n\n// goverter:converter\n// goverter:output:format function\n// goverter:output:file ../gen/b.go\n// goverter:output:package vx/gen\ntype B interface {\n\tConvB(source []sh.In) []sh.Out\n}\n",
		}, []string{"./pa", "./pb"}, true},
		{"struct-format-two-files-one-output-package", map[string]string{
			"sh/sh.go": "package sh\n\ntype N struct{ V int }\ntype M struct{ V int }\ntype In struct{ A N; L []N }\ntype Out struct{ A M; L []M }\n",
			"pa/a.go":  "package pa\n\nimport \"vx/sh\"\n\n// goverter:converter\n// goverter:output:file ../gen/a.go\n// goverter:output:package vx/gen\ntype A interface {\n\tConvA(source sh.In) sh.Out\n}\n",
			"pb/b.go":  "package pb\n\nimport \"vx/sh\"\n\n// goverter:converter\n// goverter:output:file ../gen/b.go\n// goverter:output:package vx/gen\ntype B interface {\n\tConvB(source []sh.In) []sh.Out\n}\n",
		}, []string{"./pa", "./pb"}, true},
		{"variables-two-blocks-one-package", map[string]string{
			"sh/sh.go": "package sh\n\ntype N struct{ V int }\ntype M struct{ V int }\ntype In struct{ A N; L []N }\ntype Out struct{ A M; L []M }\n",
			"pa/a.go":  "package pa\n\nimport \"vx/sh\"\n\n// goverter:variables\nvar (\n\tConvA func(source sh.In) sh.Out\n)\n",
			"pa/b.go":  "package pa\n\nimport \"vx/sh\"\n\n// goverter:variables\nvar (\n\tConvB func(source []sh.In) []sh.Out\n)\n",
		}, []string{"./pa"}, true},
		{"wrap-errors-in-one-converter", map[string]string{
			"sh/sh.go": "package sh\n\ntype In struct{ A int }\ntype Out struct{ A string }\n\nfunc Conv(i int) (string, error) { return \"\", nil }\n",
			"pa/a.go":  "package pa\n\nimport \"vx/sh\"\n\n// goverter:converter\n// goverter:wrapErrors\n// goverter:extend vx/sh:Conv\ntype C interface {\n\tConvert(source []sh.In) ([]sh.Out, error)\n}\n",
			"pb/b.go":  "package pb\n\nimport \"vx/sh\"\n\n// goverter:converter\n// goverter:extend vx/sh:Conv\ntype C interface {\n\tConvert(source []sh.In) ([]sh.Out, error)\n}\n",
		}, []string{"./pa", "./pb"}, false},
	}
}

// jointPatterns strips the "|drop=" suffixes and removes duplicate patterns.
func jointPatterns(pkgs []string) []string {
	seen := map[string]bool{}
	var out []string
	for _, p := range pkgs {
		if k := strings.Index(p, "|drop="); k >= 0 {
			p = p[:k]
		}
		if !seen[p] {
			seen[p] = true
			out = append(out, p)
		}
	}
	return out
}

// roleLeakCases: two goverter:variables blocks in two files of one package name the same function of another package
// in two roles (map|FUNC, default, extend). What is acceptable for one role (generic, no source parameter) must still be
// judged for the other role: the joint run fails iff one of the blocks fails on its own.
func roleLeakCases() []xconvCase {
	fns := `package sh

type In struct {
	Name string
	Age  int
}
type Out struct {
	Name string
	Age  int
}

func OkS(s string) string         { return s + "!" }
func OkO(s In) Out                { return Out{Name: s.Name} }
func GenericS[X any](s X) X       { return s }
func GenericO[X any](s X) Out     { return Out{} }
func NosrcS() string              { return "n" }
func NosrcO() Out                 { return Out{} }
func ErrS(s string) (string, error) { return s, nil }
func ErrO(s In) (Out, error)      { return Out{}, nil }
func TwoS(a string, b string) string { return a + b }
func TwoO(a In, b In) Out         { return Out{} }
`
	unit := func(file, varName, role, fn string) string {
		conv, meth := "", ""
		switch role {
		case "map":
			meth = "\t// goverter:map Name | vx/sh:" + fn + "\n"
		case "default":
			meth = "\t// goverter:default vx/sh:" + fn + "\n"
		case "extend":
			conv = "// goverter:extend vx/sh:" + fn + "\n"
		}
		return "package pa\n\nimport \"vx/sh\"\n\n// goverter:variables\n" + conv + "var (\n" + meth + "\t" + varName + " func(source sh.In) sh.Out\n)\n"
	}
	var out []xconvCase
	for _, kind := range []string{"Ok", "Generic", "Nosrc", "Err", "Two"} {
		for _, flavour := range []struct {
			sfx   string
			roles []string
		}{{"S", []string{"map", "extend"}}, {"O", []string{"default", "extend"}}} {
			for _, ra := range flavour.roles {
				for _, rb := range flavour.roles {
					fn := kind + flavour.sfx
					out = append(out, xconvCase{
						name: fmt.Sprintf("role-leak-%s-%s-then-%s", fn, ra, rb),
						files: map[string]string{
							"sh/sh.go": fns,
							"pa/a.go":  unit("a", "ConvA", ra, fn),
							"pa/b.go":  unit("b", "ConvB", rb, fn),
						},
						pkgs:         []string{"./pa|drop=pa/b.go", "./pa|drop=pa/a.go"},
						sharedOutput: true,
					})
				}
			}
		}
	}
	return out
}

// outputResolutionCases: a package whose output location already holds a package with another name (the existing name
// must be kept) is referenced by a sibling package of the same run through extend / map|FUNC / default. What the
// referenced package's own converter is written to must not depend on the sibling.
func outputResolutionCases() []xconvCase {
	types := "type In struct{ Name string }\ntype Out struct{ Name string }\n\nfunc Fn(s string) string { return s + \"!\" }\nfunc NewOut() Out { return Out{} }\n"
	var out []xconvCase
	for _, ref := range []string{"extend", "map", "default"} {
		for _, first := range []string{"pa", "pz"} { // the referencing package sorts before / after the referenced one
			conv, meth := "", ""
			switch ref {
			case "extend":
				conv = "// goverter:extend vx/pb:Fn\n"
			case "map":
				meth = "\t// goverter:map Name | vx/pb:Fn\n"
			case "default":
				meth = "\t// goverter:default vx/pb:NewOut\n"
			}
			if ref != "default" {
				// the referencing package does not import the referenced one in its Go source (own types)
				own := "type In struct{ Name string }\ntype Out struct{ Name string }\n"
				out = append(out, xconvCase{
					name: fmt.Sprintf("output-existing-package-name-kept-%s-from-%s-without-import", ref, first),
					files: map[string]string{
						"pb/b.go":                  "package pb\n\n" + types + "\n// goverter:converter\ntype B interface {\n\tConvert(source In) Out\n}\n",
						"pb/generated/existing.go": "package bgen\n\n// Existing keeps the package name of this directory.\nconst Existing = 1\n",
						first + "/a.go":            "package " + first + "\n\n" + own + "\n// goverter:converter\n" + conv + "type A interface {\n" + meth + "\tConvert(source In) Out\n}\n",
					},
					pkgs: []string{"./" + first, "./pb"},
				})
			}
			out = append(out, xconvCase{
				name: fmt.Sprintf("output-existing-package-name-kept-%s-from-%s", ref, first),
				files: map[string]string{
					"pb/b.go":                  "package pb\n\n" + types + "\n// goverter:converter\ntype B interface {\n\tConvert(source In) Out\n}\n",
					"pb/generated/existing.go": "package bgen\n\n// Existing keeps the package name of this directory.\nconst Existing = 1\n",
					first + "/a.go":            "package " + first + "\n\nimport \"vx/pb\"\n\n// goverter:converter\n" + conv + "type A interface {\n" + meth + "\tConvert(source pb.In) pb.Out\n}\n",
				},
				pkgs: []string{"./" + first, "./pb"},
			})
		}
	}
	return out
}

// sharedFunctionCases: (1) one custom function named by two converters of a run, for one of which it is acceptable and
// for the other not (its first parameter is the first converter's interface, so for the second it is a second source):
// the faulty converter must fail the run whatever was decided for its sibling; (2) input packages in different
// directories that share their package NAME, with a command-line output:file: each lands in the package that already
// exists at its own output location.
func sharedFunctionCases() []xconvCase {
	var out []xconvCase
	for _, role := range []string{"extend", "map", "default"} {
		for _, first := range []string{"pa", "pz"} {
			other := map[string]string{"pa": "pz", "pz": "pa"}[first]
			fn := "func F(c A, s string) string { return s }\nfunc D(c A, s In) Out { return Out{} }\n"
			conv := func(name, pkgq string) (string, string) {
				switch role {
				case "extend":
					return "// goverter:extend " + pkgq + "F\n", ""
				case "map":
					return "", "\t// goverter:map Name | " + pkgq + "F\n"
				}
				return "", "\t// goverter:default " + pkgq + "D\n"
			}
			ca, ma := conv("A", "")
			cb, mb := conv("B", "vx/"+first+":")
			out = append(out, xconvCase{
				name: fmt.Sprintf("exit-shared-function-converter-param-%s-owner-%s", role, first),
				files: map[string]string{
					first + "/a.go": "package " + first + "\n\ntype In struct{ Name string }\ntype Out struct{ Name string }\n\n" + fn + "\n// goverter:converter\n" + ca + "type A interface {\n" + ma + "\tConvert(source In) Out\n}\n",
					other + "/b.go": "package " + other + "\n\nimport \"vx/" + first + "\"\n\n// goverter:converter\n" + cb + "type B interface {\n" + mb + "\tConvert(source " + first + ".In) " + first + ".Out\n}\n",
				},
				pkgs: []string{"./" + first, "./" + other},
			})
		}
	}
	for _, existing := range []string{"first", "second", "both"} {
		files := map[string]string{
			"order/convert/c.go": "package convert\n\ntype In struct{ Name string }\ntype Out struct{ Name string }\n\n// goverter:converter\ntype C interface {\n\tConvert(source In) Out\n}\n",
			"user/convert/c.go":  "package convert\n\ntype In struct{ Age int }\ntype Out struct{ Age int }\n\n// goverter:converter\ntype C interface {\n\tConvert(source In) Out\n}\n",
		}
		if existing != "second" {
			files["order/convert/out/doc.go"] = "package ordergen\n\nconst Existing = 1\n"
		}
		if existing != "first" {
			files["user/convert/out/doc.go"] = "package usergen\n\nconst Existing = 1\n"
		}
		name := "output-same-package-name-in-two-directories-existing-" + existing
		xconvGlobals[name] = []string{"output:file ./out/conv.gen.go"}
		out = append(out, xconvCase{name: name, files: files, pkgs: []string{"./order/convert", "./user/convert"}})
	}
	return out
}

func (c xconvCase) tree() fshist.Tree {
	t := fshist.Tree{"go.mod": {Data: []byte("module vx\n\ngo 1.22\n"), Mode: 0o644}}
	for p, s := range c.files {
		d := filepath.ToSlash(filepath.Dir(p))
		for d != "." && d != "" {
			t[d] = fshist.Entry{Dir: true, Mode: 0o755}
			d = filepath.ToSlash(filepath.Dir(d))
		}
		t[p] = fshist.Entry{Data: []byte(s), Mode: 0o644}
	}
	return t
}

// RunXConv runs the differential for every case and every order of the joint patterns. prop files the violations.
func RunXConv(run *ev.Run) int { return RunXConvFiltered(run, "") }

// RunXConvFiltered runs only the cases whose name starts with prefix.
func RunXConvFiltered(run *ev.Run, prefix string) int {
	base, err := os.MkdirTemp(emit.ScratchRoot(), "verif-xconv-")
	if err != nil {
		run.Harness = true
		return 0
	}
	defer os.RemoveAll(base)
	bin := drive.GoverterBin()
	var mu sync.Mutex
	var wg sync.WaitGroup
	sem := make(chan bool, nWorkers)
	nruns := 0
	for ci, c := range append(append(append(xconvCases(), roleLeakCases()...), outputResolutionCases()...), sharedFunctionCases()...) {
		if !strings.HasPrefix(c.name, prefix) {
			continue
		}
		wg.Add(1)
		sem <- true
		go func(ci int, c xconvCase) {
			defer wg.Done()
			defer func() { <-sem }()
			t := c.tree()
			var genIn func(tag string, pats []string, t fshist.Tree) (fshist.Tree, *fshist.Run)
			gen := func(tag string, pats []string) (fshist.Tree, *fshist.Run) { return genIn(tag, pats, t) }
			genIn = func(tag string, pats []string, t fshist.Tree) (fshist.Tree, *fshist.Run) {
				dir := filepath.Join(base, fmt.Sprintf("x%d-%s", ci, tag))
				args := []string{"gen"}
				for _, g := range xconvGlobals[c.name] {
					args = append(args, "-g", g)
				}
				after, r, err := fshist.RunIn(bin, t, dir, "", nil, append(args, pats...)...)
				if err == nil && r.Exit == 0 {
					if br := drive.RunGo(dir, 5*60e9, "build", "./..."); br.Exit != 0 {
						mu.Lock()
						if run.Prop == "C01" {
							run.Report(ev.Violation{Site: "xconv:" + c.name + "|compile", Symptom: "does-not-compile",
								Detail: fmt.Sprintf("case %s: goverter gen %v succeeded but the module does not build:\n%s", c.name, pats, firstN(br.Stderr, 800)),
								Case:   map[string]any{"kind": "xconv", "case": c.name, "patterns": pats, "files": c.files}})
						}
						mu.Unlock()
					}
				}
				os.RemoveAll(dir)
				if err != nil {
					return nil, nil
				}
				return after, r
			}
			// separate runs
			alone := map[string]map[string][]byte{}
			aloneExit := map[string]int{}
			anyFail := false
			for i, p := range c.pkgs {
				// "pattern|drop=f1,f2": this unit shares its package with a sibling; alone means without the sibling's files
				pat, at := p, t
				if k := strings.Index(p, "|drop="); k >= 0 {
					pat, at = p[:k], t.Clone()
					for _, f := range strings.Split(p[k+6:], ",") {
						delete(at, f)
					}
				}
				after, r := genIn(fmt.Sprint("alone", i), []string{pat}, at)
				if after == nil {
					return
				}
				created, changed, _ := fshist.Diff(at, after)
				files := map[string][]byte{}
				for _, f := range append(created, changed...) {
					if !after[f].Dir {
						files[f] = after[f].Data
					}
				}
				alone[p], aloneExit[p] = files, r.Exit
				if r.Exit != 0 {
					anyFail = true
				}
				// generated code of a successful separate run must build (C01)
				mu.Lock()
				nruns++
				mu.Unlock()
			}
			for oi, order := range permutations(jointPatterns(c.pkgs)) {
				after, r := gen(fmt.Sprint("joint", oi), order)
				if after == nil {
					return
				}
				mu.Lock()
				nruns++
				run.Outcome(fmt.Sprintf("xconv:joint-exit:%d/any-alone-fails:%v", r.Exit, anyFail))
				desc := map[string]any{"kind": "xconv", "case": c.name, "patterns": order, "files": c.files}
				site := "xconv:" + c.name
				if run.Prop == "C01" {
					mu.Unlock()
					continue
				}
				if (r.Exit != 0) != anyFail {
					run.Report(ev.Violation{Site: site + "|exit", Symptom: "joint-run-outcome-differs-from-separate-runs",
						Detail: fmt.Sprintf("case %s: goverter gen %v exits %d although the separate runs exit %v\n%s", c.name, order, r.Exit, aloneExit, firstN(r.Stderr, 600)), Case: desc})
				} else if r.Exit == 0 && !c.sharedOutput {
					created, changed, _ := fshist.Diff(t, after)
					got := map[string][]byte{}
					for _, f := range append(created, changed...) {
						if !after[f].Dir {
							got[f] = after[f].Data
						}
					}
					want := map[string][]byte{}
					for _, p := range c.pkgs {
						for f, b := range alone[p] {
							want[f] = b
						}
					}
					var names []string
					for f := range want {
						names = append(names, f)
					}
					for f := range got {
						if _, ok := want[f]; !ok {
							names = append(names, f)
						}
					}
					sort.Strings(names)
					for _, f := range names {
						if !bytes.Equal(got[f], want[f]) {
							run.Report(ev.Violation{Site: site + "|bytes", Symptom: "sibling-converter-changes-output",
								Detail: fmt.Sprintf("case %s: %s differs between the joint run (gen %v) and the run of its package alone\n--- alone:\n%s\n--- joint:\n%s", c.name, f, order, firstN(string(want[f]), 1500), firstN(string(got[f]), 1500)), Case: desc})
							break
						}
					}
				}
				mu.Unlock()
			}
		}(ci, c)
	}
	wg.Wait()
	return nruns
}
