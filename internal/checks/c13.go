package checks

import (
	"fmt"
	"os"
	"strings"
	"time"

	"verif/internal/drive"
	"verif/internal/emit"
	"verif/internal/ev"
	"verif/internal/model"
	"verif/internal/pool"
	"verif/internal/space"
)

// ---- C13 (i-b): recursive type graphs ----

// recField is one field of a graph node: leaf int or an edge to node `to` through constructor kind.
type recField struct {
	kind string // int | ptr | slice | map | direct
	to   int
}

func recFieldAlphabet(nodes int) []recField {
	out := []recField{{kind: "int"}}
	for _, k := range []string{"ptr", "slice", "map", "direct"} {
		for t := 0; t < nodes; t++ {
			out = append(out, recField{k, t})
		}
	}
	return out
}

// directCycle reports whether the graph has a cycle of direct (by-value) struct edges (illegal in Go).
func directCycle(g [][]recField) bool {
	n := len(g)
	state := make([]int, n)
	var visit func(i int) bool
	visit = func(i int) bool {
		if state[i] == 1 {
			return true
		}
		if state[i] == 2 {
			return false
		}
		state[i] = 1
		for _, f := range g[i] {
			if f.kind == "direct" && visit(f.to) {
				return true
			}
		}
		state[i] = 2
		return false
	}
	for i := 0; i < n; i++ {
		if visit(i) {
			return true
		}
	}
	return false
}

func buildRecGraph(id string, g [][]recField) *Scenario {
	sc := &Scenario{ID: "Z" + id, PropGen: "C03", PropVal: "C02", Test: "Convert", Funcs: map[string]string{}, Mode: "value,alias,nomutate"}
	var desc []string
	mk := func(pkg string) []*space.Decl {
		ds := make([]*space.Decl, len(g))
		for i := range g {
			ds[i] = &space.Decl{Pkg: pkg, Name: fmt.Sprintf("N%d%s", i, id)}
		}
		for i, fs := range g {
			var fields []space.Field
			for j, fl := range fs {
				var t *space.Ty
				switch fl.kind {
				case "int":
					t = tInt
				case "ptr":
					t = space.P(space.N(ds[fl.to]))
				case "slice":
					t = space.S(space.N(ds[fl.to]))
				case "map":
					t = space.M(tStr, space.N(ds[fl.to]))
				case "direct":
					t = space.N(ds[fl.to])
				}
				fields = append(fields, f(fmt.Sprintf("F%d", j), t))
			}
			ds[i].Under = space.St(fields...)
		}
		return ds
	}
	for i, fs := range g {
		var parts []string
		for _, fl := range fs {
			if fl.kind == "int" {
				parts = append(parts, "int")
			} else {
				parts = append(parts, fmt.Sprintf("%s→N%d", fl.kind, fl.to))
			}
		}
		desc = append(desc, fmt.Sprintf("N%d{%s}", i, strings.Join(parts, ",")))
	}
	in, out := mk("in"), mk("out")
	sc.Decls = append(in, out...)
	sc.Desc = map[string]any{"class": "recursive-graph", "graph": strings.Join(desc, " ")}
	conv := &model.Converter{OutPkg: "conv/generated", LitPkg: "conv"}
	sc.Conv = conv
	mm := &model.Method{Name: "Convert", Src: space.N(in[0]), Dst: space.N(out[0]), Fields: map[string]*model.FieldCfg{}}
	conv.Methods = []*model.Method{mm}
	sc.Methods = []*ScMethod{{Name: "Convert", Params: "source " + space.N(in[0]).Go("conv"), Result: space.N(out[0]).Go("conv"), M: mm}}
	return sc
}

// recursive named non-struct types: type L []L, type M map[string]M, type P *P, type S []*S, type F func() F, type C chan C
func buildRecNamed(id, name string, under func(self *space.Ty) *space.Ty, noRuntime bool) *Scenario {
	sc := &Scenario{ID: "Y" + id, PropGen: "C03", PropVal: "C02", Test: "Convert", Funcs: map[string]string{}, Mode: "value,nomutate", NoRuntime: noRuntime,
		Desc: map[string]any{"class": "recursive-named:" + name}, Unspec: "self-referential named non-struct type"}
	mk := func(pkg string) *space.Decl {
		d := &space.Decl{Pkg: pkg, Name: "R" + id}
		d.Under = under(space.N(d))
		return d
	}
	in, out := mk("in"), mk("out")
	sc.Decls = []*space.Decl{in, out}
	conv := &model.Converter{OutPkg: "conv/generated", LitPkg: "conv"}
	sc.Conv = conv
	mm := &model.Method{Name: "Convert", Src: space.N(in), Dst: space.N(out), Fields: map[string]*model.FieldCfg{}}
	conv.Methods = []*model.Method{mm}
	sc.Methods = []*ScMethod{{Name: "Convert", Params: "source " + space.N(in).Go("conv"), Result: space.N(out).Go("conv"), M: mm}}
	return sc
}

func RecScenarios(tier string) []*Scenario {
	var out []*Scenario
	n := 0
	graphs := func(nodes, maxFields int) {
		alpha := recFieldAlphabet(nodes)
		var nodeChoices [][]recField
		for _, a := range alpha {
			nodeChoices = append(nodeChoices, []recField{a})
		}
		if maxFields >= 2 {
			for _, a := range alpha {
				for _, b := range alpha {
					nodeChoices = append(nodeChoices, []recField{a, b})
				}
			}
		}
		var rec func(g [][]recField)
		rec = func(g [][]recField) {
			if len(g) == nodes {
				if directCycle(g) {
					return
				}
				// every node must be reachable from N0, otherwise it is a smaller graph
				reach := map[int]bool{0: true}
				for changed := true; changed; {
					changed = false
					for i := range g {
						if !reach[i] {
							continue
						}
						for _, fl := range g[i] {
							if fl.kind != "int" && !reach[fl.to] {
								reach[fl.to] = true
								changed = true
							}
						}
					}
				}
				if len(reach) != nodes {
					return
				}
				n++
				out = append(out, buildRecGraph(fmt.Sprintf("%05d", n), append([][]recField{}, g...)))
				return
			}
			for _, c := range nodeChoices {
				rec(append(g, c))
			}
		}
		rec(nil)
	}
	graphs(1, 2)
	graphs(2, 2)
	if tier == "thorough" {
		graphs(3, 1)
	}
	named := []struct {
		name  string
		under func(self *space.Ty) *space.Ty
		noRT  bool
	}{
		{"slice-of-self", func(s *space.Ty) *space.Ty { return space.S(s) }, false},
		{"map-of-self", func(s *space.Ty) *space.Ty { return space.M(tStr, s) }, false},
		{"ptr-to-self", func(s *space.Ty) *space.Ty { return space.P(s) }, true},
		{"slice-of-ptr-self", func(s *space.Ty) *space.Ty { return space.S(space.P(s)) }, false},
		{"func-returning-self", func(s *space.Ty) *space.Ty { return &space.Ty{K: space.Func, Name: "() " + s.D.Name} }, true},
		{"chan-of-self", func(s *space.Ty) *space.Ty { return space.Ch("", s) }, true},
		{"struct-with-slice-of-self-slice", func(s *space.Ty) *space.Ty { return space.St(f("K", space.S(space.S(s)))) }, false},
	}
	for _, nm := range named {
		n++
		out = append(out, buildRecNamed(fmt.Sprintf("%05d", n), nm.name, nm.under, nm.noRT))
	}
	// every self-referential named type R = w(R) for constructor words w of length <=2 (thorough 3) over
	// {pointer, slice, array, map value}; words of arrays only have infinite size and are skipped
	type ctor struct {
		name string
		mk   func(x *space.Ty) *space.Ty
	}
	ctors := []ctor{
		{"ptr", func(x *space.Ty) *space.Ty { return space.P(x) }},
		{"slice", func(x *space.Ty) *space.Ty { return space.S(x) }},
		{"array", func(x *space.Ty) *space.Ty { return space.A(2, x) }},
		{"mapval", func(x *space.Ty) *space.Ty { return space.M(tStr, x) }},
	}
	maxLen := 2
	if tier == "thorough" {
		maxLen = 3
	}
	var words [][]ctor
	var gen func(w []ctor)
	gen = func(w []ctor) {
		if len(w) > 0 {
			words = append(words, append([]ctor{}, w...))
		}
		if len(w) == maxLen {
			return
		}
		for _, c := range ctors {
			gen(append(w, c))
		}
	}
	gen(nil)
	for _, w := range words {
		onlyArr, onlyPtr := true, true
		var names []string
		for _, c := range w {
			onlyArr = onlyArr && c.name == "array"
			onlyPtr = onlyPtr && c.name == "ptr"
			names = append(names, c.name)
		}
		if onlyArr {
			continue
		}
		w := w
		for _, pos := range []string{"top", "field"} {
			n++
			sc := buildRecNamed(fmt.Sprintf("%05d", n), "self-word:"+strings.Join(names, ">")+"@"+pos, func(self *space.Ty) *space.Ty {
				t := self
				for i := len(w) - 1; i >= 0; i-- {
					t = w[i].mk(t)
				}
				return t
			}, true)
			_ = onlyPtr
			if pos == "field" {
				id := fmt.Sprintf("%05d", n)
				src, dst := sc.Methods[0].M.Src, sc.Methods[0].M.Dst
				hs := &space.Decl{Pkg: "in", Name: "HW" + id, Under: space.St(f("A", tInt), f("R", src))}
				ht := &space.Decl{Pkg: "out", Name: "HW" + id, Under: space.St(f("A", tInt), f("R", dst))}
				sc.Decls = append(sc.Decls, hs, ht)
				mm := &model.Method{Name: "Convert", Src: space.N(hs), Dst: space.N(ht), Fields: map[string]*model.FieldCfg{}}
				sc.Conv.Methods = []*model.Method{mm}
				sc.Methods = []*ScMethod{{Name: "Convert", Params: "source " + space.N(hs).Go("conv"), Result: space.N(ht).Go("conv"), M: mm}}
			}
			out = append(out, sc)
		}
	}
	// mutually recursive named non-struct types: type A op1(B); type B op2(A) (and 3-cycles in the thorough tier),
	// as the method's own pair and as a struct field
	type mop struct {
		name string
		mk   func(x *space.Ty) *space.Ty
	}
	mops := []mop{
		{"slice", func(x *space.Ty) *space.Ty { return space.S(x) }},
		{"mapval", func(x *space.Ty) *space.Ty { return space.M(tStr, x) }},
		{"ptr", func(x *space.Ty) *space.Ty { return space.P(x) }},
		{"array", func(x *space.Ty) *space.Ty { return space.A(2, x) }},
		{"sliceptr", func(x *space.Ty) *space.Ty { return space.S(space.P(x)) }},
		{"arrayptr", func(x *space.Ty) *space.Ty { return space.A(2, space.P(x)) }},
		{"arrayslice", func(x *space.Ty) *space.Ty { return space.A(1, space.S(x)) }},
	}
	var cycles [][]mop
	for _, a := range mops {
		for _, b := range mops {
			cycles = append(cycles, []mop{a, b})
			if tier == "thorough" {
				for _, c := range mops {
					cycles = append(cycles, []mop{a, b, c})
				}
			}
		}
	}
	for _, cyc := range cycles {
		allArr, allPtr := true, true
		var names []string
		for _, o := range cyc {
			allArr = allArr && o.name == "array"
			allPtr = allPtr && o.name == "ptr"
			names = append(names, o.name)
		}
		if allArr {
			continue // infinite size: not a Go type
		}
		for _, pos := range []string{"top", "field"} {
			n++
			id := fmt.Sprintf("%05d", n)
			mk := func(pkg string) []*space.Decl {
				ds := make([]*space.Decl, len(cyc))
				for i := range cyc {
					ds[i] = &space.Decl{Pkg: pkg, Name: fmt.Sprintf("M%d%s", i, id)}
				}
				for i, o := range cyc {
					ds[i].Under = o.mk(space.N(ds[(i+1)%len(cyc)]))
				}
				return ds
			}
			in, outD := mk("in"), mk("out")
			sc := &Scenario{ID: "Y" + id, PropGen: "C03", PropVal: "C02", Test: "Convert", Funcs: map[string]string{}, Mode: "value,nomutate", NoRuntime: allPtr,
				Desc: map[string]any{"class": "mutually-recursive-named:" + strings.Join(names, ">") + "@" + pos}, Unspec: "mutually recursive named non-struct types"}
			sc.Decls = append(append([]*space.Decl{}, in...), outD...)
			src, dst := space.N(in[0]), space.N(outD[0])
			if pos == "field" {
				hs := &space.Decl{Pkg: "in", Name: "H" + id, Under: space.St(f("A", tInt), f("R", src))}
				ht := &space.Decl{Pkg: "out", Name: "H" + id, Under: space.St(f("A", tInt), f("R", dst))}
				sc.Decls = append(sc.Decls, hs, ht)
				src, dst = space.N(hs), space.N(ht)
			}
			conv := &model.Converter{OutPkg: "conv/generated", LitPkg: "conv"}
			sc.Conv = conv
			mm := &model.Method{Name: "Convert", Src: src, Dst: dst, Fields: map[string]*model.FieldCfg{}}
			conv.Methods = []*model.Method{mm}
			sc.Methods = []*ScMethod{{Name: "Convert", Params: "source " + src.Go("conv"), Result: dst.Go("conv"), M: mm}}
			out = append(out, sc)
		}
	}
	// generic types: instantiations of a generic recursive tree and of generic wrappers around each other
	for _, arg := range []func(u *space.Universe) *space.Ty{
		func(u *space.Universe) *space.Ty { return tInt },
		func(u *space.Universe) *space.Ty { return tStr },
		func(u *space.Universe) *space.Ty { return space.P(tInt) },
		func(u *space.Universe) *space.Ty { return space.S(tStr) },
	} {
		n++
		id := fmt.Sprintf("%05d", n)
		u := space.StdUniverse()
		mk := func(pkg string) (*space.Decl, *space.Decl) {
			tree := &space.Decl{Pkg: pkg, Name: "Tree" + id, TParams: 1}
			tree.Under = space.St(f("V", space.B("T0")), f("Kids", space.S(space.N(tree, space.B("T0")))), f("Up", space.P(space.N(tree, space.B("T0")))))
			box := &space.Decl{Pkg: pkg, Name: "Box" + id, TParams: 1, Under: space.St(f("In", space.B("T0")), f("M", space.M(tStr, space.B("T0"))))}
			return tree, box
		}
		it, ib := mk("in")
		ot, ob := mk("out")
		a := arg(u)
		src := space.N(ib, space.N(it, a))
		dst := space.N(ob, space.N(ot, a))
		sc := &Scenario{ID: "Y" + id, PropGen: "C03", PropVal: "C02", Test: "Convert", Funcs: map[string]string{}, Mode: "value,nomutate",
			Desc: map[string]any{"class": "generic-recursive:" + a.Go("conv")}, Decls: []*space.Decl{it, ib, ot, ob}}
		conv := &model.Converter{OutPkg: "conv/generated", LitPkg: "conv"}
		sc.Conv = conv
		mm := &model.Method{Name: "Convert", Src: src, Dst: dst, Fields: map[string]*model.FieldCfg{}}
		conv.Methods = []*model.Method{mm}
		sc.Methods = []*ScMethod{{Name: "Convert", Params: "source " + src.Go("conv"), Result: dst.Go("conv"), M: mm}}
		out = append(out, sc)
	}
	return out
}

// ---- C13 (ii): directive grammar ----

var dirKeys = []string{
	"", "nonsense", "converter", "variables",
	"name", "output:file", "output:package", "output:format", "output:raw", "struct:comment", "extend", "enum:exclude",
	"wrapErrors", "wrapErrorsUsing", "ignoreUnexported", "update:ignoreZeroValueField", "update:ignoreZeroValueField:basic",
	"update:ignoreZeroValueField:struct", "update:ignoreZeroValueField:nillable", "default:update", "matchIgnoreCase", "ignoreMissing",
	"skipCopySameType", "useZeroValueOnPointerInconsistency", "useUnderlyingTypeMethods", "enum", "arg:context:regex", "enum:unknown",
	"map", "ignore", "update", "context", "enum:map", "enum:transform", "autoMap", "default",
}

func dirTokens() []string {
	long := strings.TrimSuffix(strings.Repeat("A.", 150), ".")
	return []string{"", ".", "A", "A.B", "N.A", "Z", "Z.A", "P.Z", "..", "A..B", "|", "| F", "| NoArg", ":", "pkg:", ":F", "vx/conv:F", "@x", "@error", "(", "[", ".*", long, "yes", "no", "\t", "é", "target", "source", "regex", "F", "NoArg", "X"}
}

// dirValues: all value strings of ≤ k tokens joined by one space.
func dirValues(k int) []string {
	toks := dirTokens()
	out := append([]string{}, toks...)
	if k >= 2 {
		for _, a := range toks {
			for _, b := range toks {
				out = append(out, a+" "+b)
			}
		}
	}
	if k >= 3 {
		short := []string{"", ".", "A", "| F", ":", "@x", "(", "F", "X"}
		for _, a := range short {
			for _, b := range short {
				for _, c := range short {
					out = append(out, a+" "+b+" "+c)
				}
			}
		}
	}
	return out
}

const dirSource = `
type DIn struct {
	A int
	B string
	N DNested
	P *DNested
	Z *DZip
	Q *int
}
type DNested struct{ A int; B string; Z *DZip }
type DZip string
type DOut struct {
	A int
	B string
	X int
}
type DEnumIn int
const (DEnumInA DEnumIn = 1; DEnumInB DEnumIn = 2)
type DEnumOut int
const (DEnumOutA DEnumOut = 1; DEnumOutB DEnumOut = 2)

func F(s int) int { return s }
func NoArg() int { return 1 }
func NewOut() DOut { return DOut{} }

// goverter:converter
// goverter:ignoreMissing
type DStruct interface {
	Convert(source DIn) DOut
}

// goverter:converter
// goverter:ignoreMissing
type DUpdate interface {
	// goverter:update target
	Convert(source DIn, target *DOut)
}

// goverter:converter
// goverter:enum:unknown @ignore
type DEnum interface {
	// goverter:enum:map DEnumInA DEnumOutA
	// goverter:enum:map DEnumInB DEnumOutB
	Convert(source DEnumIn) DEnumOut
}

// goverter:variables
// goverter:ignoreMissing
var (
	DVar func(source DIn) DOut
)
`

// DirWorker injects every (key, value) at every position of every base declaration.
func DirWorker(w *pool.W, shard, n int, tier string, skip map[string]bool) error {
	k := 2
	if tier == "thorough" {
		k = 3
	}
	mod, err := emit.NewModule("dir")
	if err != nil {
		return err
	}
	defer mod.Remove()
	mod.Add("conv/conv.go", "package conv\n"+dirSource)
	if err := mod.Write(); err != nil {
		return err
	}
	sess, err := drive.Open(mod.Dir, []string{"./conv"}, []string{"extend F", "extend vx/conv:F"})
	if err != nil {
		return err
	}
	vals := dirValues(k)
	bases := []string{"DStruct", "DUpdate", "DEnum", "var:DVar"}
	idx := 0
	for _, base := range bases {
		var rc = sess.Raws[base]
		mname := "Convert"
		if strings.HasPrefix(base, "var:") {
			rc, _ = sess.FindVar(base[4:])
			mname = base[4:]
		}
		for _, key := range dirKeys {
			for _, val := range vals {
				for _, pos := range []string{"cli", "converter", "method"} {
					idx++
					if idx%n != shard {
						continue
					}
					line := key
					if val != "" {
						line = key + " " + val
					}
					id := fmt.Sprintf("dir%d", idx)
					if skip[id] {
						continue
					}
					var inj *drive.Inject
					switch pos {
					case "cli":
						inj = &drive.Inject{Global: []string{line}}
					case "converter":
						inj = &drive.Inject{Converter: []string{line}}
					default:
						inj = &drive.Inject{Method: map[string][]string{mname: {line}}}
					}
					w.Begin(fmt.Sprintf("%s class:directive base=%s pos=%s line=%q", id, base, pos, firstN(line, 120)))
					out := sess.Gen(rc, inj)
					w.Count("evaluations")
					w.Count("out:dir/" + out.Kind.String())
					cs := map[string]any{"kind": "directive", "base": base, "position": pos, "line": firstN(line, 200)}
					switch out.Kind {
					case drive.Panic:
						w.Viol(ev.Violation{Property: "C13", Site: panicSite(out.Diag), Symptom: "panic",
							Detail: fmt.Sprintf("goverter:%s at %s level of %s\n%s", firstN(line, 200), pos, base, out.Diag), Case: cs})
					case drive.Error:
						if strings.TrimSpace(out.Diag) == "" {
							w.Viol(ev.Violation{Property: "C13", Site: "empty-diagnostic", Symptom: "empty-diagnostic", Detail: id, Case: cs})
						}
					}
					if idx%4001 == 0 {
						w.Sample(map[string]any{"base": base, "position": pos, "line": firstN(line, 80), "outcome": out.Kind.String()})
					}
				}
			}
		}
	}
	return nil
}

// RunC13 = type pairs + recursive graphs + directive grammar, each in isolated workers; crashes and hangs are violations.
func RunC13(run *ev.Run) {
	tier := pairTier(run)
	RunPairs(run, tier)
	total := map[string]int{}
	// (iii) the corpora of the other properties, generation only: every in-process generation runs under recover()
	for _, fam := range allFamilies {
		if fam == "recrt" {
			continue
		}
		c := RunWorkers(run, fam, []string{tier, "", "gen-only"}, "")
		total["evaluations"] += c["evaluations"]
	}
	for _, wk := range []string{"rec", "dir", "shape"} {
		skip := ""
		for round := 0; round < 12; round++ {
			counts := map[string]int{}
			crashes := pool.Run(wk, nWorkers, []string{tier, skip}, 2*time.Hour, func(shard int, m pool.Msg) {
				switch m.T {
				case "counts":
					for k, v := range m.Counts {
						counts[k] += v
					}
				case "sample":
					run.Sample(m.Sample)
				case "viol":
					if m.V.Property == "C13" {
						run.Report(*m.V)
					} else if m.V.Property == "HARNESS" {
						fmt.Fprintf(os.Stderr, "HARNESS-ERROR: %s\n%s\n", m.V.Site, firstN(m.V.Detail, 2000))
						run.Harness = true
					}
				}
			})
			if round == 0 {
				for k, v := range counts {
					total[k] += v
				}
			}
			if len(crashes) == 0 {
				break
			}
			// a crashed worker lost the rest of its shard: report the case, then re-run everything skipping it
			for _, c := range crashes {
				if c.LastCase == "" {
					run.Harness = true
					fmt.Fprintf(os.Stderr, "HARNESS-ERROR: worker %s/%d died before its first case:\n%s\n", wk, c.Shard, c.Stderr)
					continue
				}
				sym := "crash"
				if c.Timeout {
					sym = "hang"
				}
				id := strings.SplitN(c.LastCase, " ", 2)[0]
				run.Report(ev.Violation{Site: crashSite(c.Stderr) + "|" + crashClass(c.LastCase), Symptom: sym,
					Detail: fmt.Sprintf("goverter died (%s) while generating: %s\n%s", sym, c.LastCase, firstN(c.Stderr, 2500)),
					Case:   map[string]any{"kind": "crash", "case": c.LastCase}})
				skip += id + ","
			}
		}
	}
	for k, v := range total {
		if strings.HasPrefix(k, "out:") {
			run.OutcomeN(k, v)
		}
	}
	total["evaluations"] += RunDeclShapes(run)
	total["evaluations"] += RunBlockedOutputs(run)
	run.Cov["recursive_and_directive_evaluations"] = total["evaluations"]
	run.Cov["evaluations"] = run.Cov["evaluations"].(int) + total["evaluations"]
	run.Cov["states"] = run.Cov["states"].(int) + total["evaluations"]
	run.Cov["directive_keys"] = len(dirKeys)
	run.Cov["directive_values"] = len(dirValues(map[bool]int{false: 2, true: 3}[tier == "thorough"]))
	run.Cov["recursive_graph_scenarios"] = len(RecScenarios(tier))
	run.Cov["method_shapes"] = len(methodShapes(tier))
	run.Cov["rule"] = "(i) every ordered type pair of the full Go leaf alphabet (depth-bounded) under every setting vector; (i-b) every reachable struct graph with <=2 (thorough 3) named nodes and <=2 fields per node whose edges go through pointer, slice, map value or direct embedding, plus self-referential and mutually recursive named slice/map/pointer/array/func/chan types; (i-c) every ordered pair of the full depth-1 alphabet as a struct field under every other method shape (update, update with zero-value settings, default, default:update, error result with wrapErrors; with skipCopySameType / useZeroValueOnPointerInconsistency variants); (i-d) every declaration shape of a converter / variables block (generic, embedded, type-set, alias, unexported, variadic, unnamed/blank/colliding parameter names, grouped, function-typed variables with and without initial value, markers on wrong kinds) x output settings through the real CLI; (i-e) output locations taken by something else (a directory at the file path, a file at the directory path): the run terminates with a diagnostic; (ii) every directive key (known, unknown, empty) x every value string of <=2 (thorough 3) tokens of the token menu at CLI, converter and method level of four base declarations (struct, update, enum, variables); each generation runs under recover() in a worker subprocess with watchdog: a panic, a worker crash (stack overflow) or a hang is a violation; failing runs must carry a non-empty diagnostic"
}

func crashSite(stderr string) string {
	switch {
	case strings.Contains(stderr, "stack overflow"), strings.Contains(stderr, "goroutine stack exceeds"):
		return "stack-overflow"
	case strings.Contains(stderr, "out of memory"):
		return "out-of-memory"
	}
	return "worker-died"
}

func crashClass(lastCase string) string {
	if i := strings.Index(lastCase, "class:"); i >= 0 {
		return firstN(lastCase[i:], 60)
	}
	f := strings.Fields(lastCase)
	if len(f) > 1 {
		return firstN(strings.Join(f[1:], " "), 60)
	}
	return lastCase
}

func parseSkip(s string) map[string]bool {
	out := map[string]bool{}
	for _, x := range strings.Split(s, ",") {
		if x != "" {
			out[x] = true
		}
	}
	return out
}

// ---- C13 (i-c): every type pair as a struct field under the other method shapes ----

type methodShape struct {
	name  string
	iface string // "U" update interface, "D" default interface, "E" error-returning interface
	lines []string
	conv  []string
}

func methodShapes(tier string) []methodShape {
	out := []methodShape{
		{"update", "U", []string{"update target"}, nil},
		{"update+zero", "U", []string{"update target", "update:ignoreZeroValueField"}, nil},
		{"update+zero+skipcopy", "U", []string{"update target", "update:ignoreZeroValueField"}, []string{"skipCopySameType"}},
		{"default", "D", []string{"default $NEW"}, nil},
		{"default+update", "D", []string{"default $NEW", "default:update"}, []string{"useZeroValueOnPointerInconsistency"}},
		{"default+update+zero", "D", []string{"default $NEW", "default:update", "update:ignoreZeroValueField"}, nil},
		{"error+wrap", "E", nil, []string{"wrapErrors", "skipCopySameType"}},
	}
	if tier == "thorough" {
		out = append(out,
			methodShape{"update+zero:basic", "U", []string{"update target", "update:ignoreZeroValueField:basic"}, nil},
			methodShape{"update+zero:struct", "U", []string{"update target", "update:ignoreZeroValueField:struct"}, nil},
			methodShape{"update+zero:nillable", "U", []string{"update target", "update:ignoreZeroValueField:nillable"}, nil},
			methodShape{"update+zero+ptr", "U", []string{"update target", "update:ignoreZeroValueField"}, []string{"useZeroValueOnPointerInconsistency", "useUnderlyingTypeMethods"}},
			methodShape{"update+skipcopy", "U", []string{"update target"}, []string{"skipCopySameType", "ignoreUnexported"}},
			methodShape{"default+skipcopy", "D", []string{"default $NEW"}, []string{"skipCopySameType"}},
			methodShape{"default+update+zero+skipcopy", "D", []string{"default $NEW", "default:update", "update:ignoreZeroValueField"}, []string{"skipCopySameType", "enum:unknown @ignore"}},
		)
	}
	return out
}

// ShapeWorker: pairs (S,T) of the full depth-1 alphabet as field F of SW{F S; A int} → TW{F T; A int}, each under every
// method shape. Only crashes matter here (values are the business of C10/C11).
func ShapeWorker(w *pool.W, shard, n int, tier string, skip map[string]bool) error {
	u := space.StdUniverse()
	types := space.Types(u.Leaves(true), 1)
	mod, err := emit.NewModule("shapes")
	if err != nil {
		return err
	}
	defer mod.Remove()
	mod.AddUniverse(u)
	var b strings.Builder
	b.WriteString(convHeader)
	type pr struct {
		idx  int
		s, t *space.Ty
	}
	var mine []pr
	idx := 0
	var all [][2]*space.Ty
	for _, s := range types {
		for _, t := range types {
			all = append(all, [2]*space.Ty{s, t})
		}
	}
	// exotic spellings (function types, directional channels, method interfaces, tagged fields): identical pairs and
	// pairs with int are enough to make every shape render and zero-test them
	for _, x := range space.Types(u.ExoticLeaves(), 1) {
		all = append(all, [2]*space.Ty{x, x}, [2]*space.Ty{x, tInt}, [2]*space.Ty{tInt, x})
	}
	for _, st := range all {
		{
			s, t := st[0], st[1]
			idx++
			if idx%n != shard {
				continue
			}
			mine = append(mine, pr{idx, s, t})
			id := fmt.Sprintf("%07d", idx)
			fmt.Fprintf(&b, "type SW%s struct {\n\tF %s\n\tA int\n}\ntype TW%s struct {\n\tF %s\n\tA int\n}\nfunc NewTW%s() *TW%s { return &TW%s{} }\n", id, s.Go("conv"), id, t.Go("conv"), id, id, id)
			fmt.Fprintf(&b, "// goverter:converter\ntype U%s interface {\n\tConvert(source SW%s, target *TW%s)\n}\n", id, id, id)
			fmt.Fprintf(&b, "// goverter:converter\ntype D%s interface {\n\tConvert(source *SW%s) *TW%s\n}\n", id, id, id)
			fmt.Fprintf(&b, "// goverter:converter\ntype E%s interface {\n\tConvert(source SW%s) (TW%s, error)\n}\n\n", id, id, id)
		}
	}
	mod.Add("conv/conv.go", b.String())
	if err := mod.Write(); err != nil {
		return err
	}
	sess, err := drive.Open(mod.Dir, []string{"./conv"}, nil)
	if err != nil {
		return fmt.Errorf("open session: %w", err)
	}
	shapes := methodShapes(tier)
	for _, p := range mine {
		id := fmt.Sprintf("%07d", p.idx)
		for _, sh := range shapes {
			caseID := "shape" + id + sh.name
			if skip[caseID] {
				continue
			}
			rc, ok := sess.Raws[sh.iface+id]
			if !ok {
				return fmt.Errorf("converter %s%s not found", sh.iface, id)
			}
			var lines []string
			for _, l := range sh.lines {
				lines = append(lines, strings.ReplaceAll(l, "$NEW", "NewTW"+id))
			}
			w.Begin(fmt.Sprintf("%s class:shape=%s %s -> %s", caseID, sh.name, p.s, p.t))
			out := sess.Gen(rc, &drive.Inject{Converter: sh.conv, Method: map[string][]string{"Convert": lines}})
			w.Count("evaluations")
			w.Count("out:shape/" + out.Kind.String())
			cs := map[string]any{"kind": "shape", "shape": sh.name, "source_field": p.s.Go("conv"), "target_field": p.t.Go("conv"), "converter_lines": sh.conv, "method_lines": lines}
			switch out.Kind {
			case drive.Panic:
				w.Viol(ev.Violation{Property: "C13", Site: panicSite(out.Diag), Symptom: "panic",
					Detail: fmt.Sprintf("struct{F %s; A int} → struct{F %s; A int}, method shape %s (%v %v)\n%s", p.s, p.t, sh.name, sh.conv, lines, out.Diag), Case: cs})
			case drive.Error:
				if strings.TrimSpace(out.Diag) == "" {
					w.Viol(ev.Violation{Property: "C13", Site: "empty-diagnostic", Symptom: "empty-diagnostic", Detail: caseID, Case: cs})
				}
			}
			if p.idx%5003 == 0 {
				w.Sample(map[string]any{"shape": sh.name, "source_field": p.s.Go("conv"), "target_field": p.t.Go("conv"), "outcome": out.Kind.String()})
			}
		}
	}
	return nil
}
