package checks

import (
	"fmt"
	"strings"

	"verif/internal/model"
	"verif/internal/space"
)

// ---- C14: parameters/results are classified by role; invalid signatures are rejected ----

type prole struct {
	code string // SA SB CX CR UT CV
}

var c14Roles = []string{"SA", "SB", "CX", "CR", "UT", "CV"}

// orderedSelections enumerates all ordered selections of ≤ k distinct elements.
func orderedSelections(items []string, k int) [][]string {
	out := [][]string{{}}
	var rec func(cur []string)
	rec = func(cur []string) {
		if len(cur) == k {
			return
		}
		for _, it := range items {
			if containsStr(cur, it) {
				continue
			}
			n := append(append([]string{}, cur...), it)
			out = append(out, n)
			rec(n)
		}
	}
	rec(nil)
	return out
}

// sequences enumerates all lists (with repetition) of length ≤ k.
func sequences(items []string, k int) [][]string {
	out := [][]string{{}}
	level := [][]string{{}}
	for d := 0; d < k; d++ {
		var next [][]string
		for _, p := range level {
			for _, it := range items {
				next = append(next, append(append([]string{}, p...), it))
			}
		}
		out = append(out, next...)
		level = next
	}
	return out
}

var c14Results = []string{"T", "E", "I", "ME"}

func buildC14Method(id string, roles, results []string, variables, unnamed bool) *Scenario {
	u := space.StdUniverse()
	pIn, pOut := space.N(u.Get("in", "P")), space.N(u.Get("out", "P"))
	myInt := space.N(u.Get("in", "MyInt"))
	sc := &Scenario{ID: "G" + id, PropGen: "C14", PropVal: "C14", Test: "Convert" + id, Funcs: map[string]string{}, Variables: variables,
		Desc: map[string]any{"class": fmt.Sprintf("site=%s", map[bool]string{false: "method", true: "variable"}[variables]), "params": strings.Join(roles, ","), "results": strings.Join(results, ","), "unnamed": unnamed}}
	if !variables {
		sc.Test = "Convert"
	}
	conv := &model.Converter{OutPkg: "conv/generated", LitPkg: "conv"}
	if variables {
		conv.OutPkg = "conv"
	}
	sc.Conv = conv
	var params, mlines []string
	var sources []*space.Ty
	var ctxTypes []*space.Ty
	var srcIdx, tgtIdx = -1, -1
	var ctxIdx []int
	var target *space.Ty
	update := false
	for i, r := range roles {
		name, ty := "", (*space.Ty)(nil)
		switch r {
		case "SA":
			name, ty = "source", pIn
		case "SB":
			name, ty = "other", myInt
		case "CX":
			name, ty = "ctxa", tStr
			if !unnamed {
				mlines = append(mlines, "context ctxa")
			}
		case "CR":
			name, ty = "ctxr", tInt
		case "UT":
			name, ty = "target", space.P(pOut)
			if !unnamed {
				mlines = append(mlines, "update target")
			}
		case "CV":
			name, ty = "conv", nil
		}
		tyS := ""
		if ty != nil {
			tyS = ty.Go("conv")
		} else if variables {
			tyS = "CvIface" // a plain interface type of package conv (there is no converter interface for variables)
		} else {
			tyS = sc.ID
		}
		if unnamed {
			params = append(params, tyS)
		} else {
			params = append(params, name+" "+tyS)
		}
		isCtx := !unnamed && (r == "CX" || r == "CR")
		switch {
		case !unnamed && r == "UT":
			update = true
			target = ty
			tgtIdx = i
		case isCtx:
			ctxTypes = append(ctxTypes, ty)
			ctxIdx = append(ctxIdx, i)
		default:
			if ty == nil {
				ty = space.IfaceM("Convert()") // stands for "some interface type": never convertible to a struct
			}
			sources = append(sources, ty)
			if srcIdx < 0 {
				srcIdx = i
			}
		}
	}
	if containsStr(roles, "CR") && !unnamed {
		sc.ConvLines = append(sc.ConvLines, "arg:context:regex ^ctxr")
	}
	var resS []string
	for _, r := range results {
		switch r {
		case "T":
			resS = append(resS, pOut.Go("conv"))
		case "E":
			resS = append(resS, "error")
		case "I":
			resS = append(resS, "int")
		case "ME":
			resS = append(resS, "MyErr")
		}
	}
	result := ""
	switch len(resS) {
	case 0:
	case 1:
		result = resS[0]
	default:
		result = "(" + strings.Join(resS, ", ") + ")"
	}
	// --- classification (Appendix A.5)
	reject := ""
	hasErr := false
	if update {
		switch {
		case len(results) == 0:
		case len(results) == 1 && results[0] == "E":
			hasErr = true
		default:
			reject = "update method with results other than a single error"
		}
	} else {
		switch {
		case len(results) == 0 || len(results) > 2:
			reject = "needs one or two results"
		case len(results) == 2 && results[1] != "E":
			reject = "second result is not the built-in error"
		case len(results) == 2:
			hasErr = true
		}
		if reject == "" {
			switch results[0] {
			case "T":
				target = pOut
			case "E":
				target = space.Err()
			case "I":
				target = tInt
			case "ME":
				target = space.IfaceM("Error() string")
			}
		}
	}
	if reject == "" {
		switch {
		case len(sources) == 0:
			reject = "no source parameter"
		case len(sources) > 1:
			reject = "several source parameters"
		}
	}
	name := sc.Test
	mm := &model.Method{Name: name, Fields: map[string]*model.FieldCfg{}, HasErr: hasErr, Update: update, CtxTypes: ctxTypes}
	if reject != "" {
		sc.Forced, sc.ForcedReject = true, reject
	} else {
		mm.Src, mm.Dst = sources[0], target
	}
	conv.Methods = []*model.Method{mm}
	sc.Methods = []*ScMethod{{Name: name, Params: strings.Join(params, ", "), Result: result, Lines: mlines, M: mm}}
	sc.SrcIdx, sc.CtxIdx, sc.TgtIdx = srcIdx, ctxIdx, tgtIdx
	if srcIdx < 0 {
		sc.SrcIdx = 0
	}
	if tgtIdx < 0 {
		sc.TgtIdx = 0
	}
	if update {
		sc.Mode = "update"
	} else {
		sc.Mode = "value,nomutate"
	}
	return sc
}

const c14Support = `
type MyErr interface{ Error() string }

type CvIface interface{ Convert() }
`

// custom-function use sites: the function's own signature is varied.
// site ∈ extend | mapfunc | default | structmethod
func buildC14Custom(id, site string, roles, results []string) *Scenario {
	u := space.StdUniverse()
	_ = u
	sc := &Scenario{ID: "H" + id, PropGen: "C14", PropVal: "C14", Test: "Convert", Funcs: map[string]string{},
		Desc: map[string]any{"class": "site=" + site, "params": strings.Join(roles, ","), "results": strings.Join(results, ",")}}
	conv := &model.Converter{OutPkg: "conv/generated", LitPkg: "conv"}
	sc.Conv = conv
	sd := &space.Decl{Pkg: "in", Name: "S" + id, Under: space.St(f("A", tInt))}
	td := &space.Decl{Pkg: "out", Name: "T" + id, Under: space.St(f("A", tInt))}
	sT, tT := space.N(sd), space.N(td)
	// function pair: what the custom function converts
	var fs, ft *space.Ty
	regex := site == "extend-regex"
	if regex {
		site = "extend"
		sc.Desc["class"] = "site=extend-regex"
	}
	ptrMethod := site == "default-ptrmethod"
	if ptrMethod {
		// the method converts *S -> *T; a default FUNC whose source parameter is the struct by value does not fit
		site = "default"
		sc.Desc["class"] = "site=default-ptrmethod"
	}
	switch site {
	case "extend", "default":
		fs, ft = sT, tT
	case "mapfunc", "structmethod":
		fs, ft = tInt, tInt
	}
	fn := "Fn" + id
	var params []string
	cust := &model.Custom{Name: fn, Dst: ft}
	nsrc := 0
	var fnDoc []string
	methodParams := "source " + sT.Go("conv")
	var ctxTypes []*space.Ty
	sc.SrcIdx = 0
	for _, r := range roles {
		switch r {
		case "SA":
			params = append(params, "s "+fs.Go("conv"))
			if nsrc == 0 {
				cust.Src = fs
				cust.ArgsFmt = append(cust.ArgsFmt, "src")
			}
			nsrc++
		case "SB":
			params = append(params, "other string")
			if nsrc == 0 {
				cust.Src = tStr
				cust.ArgsFmt = append(cust.ArgsFmt, "src")
			}
			nsrc++
		case "CX":
			params = append(params, "ctxv string")
			fnDoc = append(fnDoc, "// goverter:context ctxv")
			cust.Ctx = append(cust.Ctx, tStr)
			cust.ArgsFmt = append(cust.ArgsFmt, fmt.Sprintf("ctx:%d", len(cust.Ctx)-1))
		case "CV":
			params = append(params, "c "+sc.ID)
			cust.Conv = true
			cust.ArgsFmt = append(cust.ArgsFmt, "conv")
			sc.NeedConv = true
		}
	}
	if cust.ArgsFmt == nil {
		cust.ArgsFmt = []string{}
	}
	if cust != nil && len(cust.Ctx) > 0 {
		methodParams += ", ctxa string"
		sc.CtxIdx = []int{1}
		ctxTypes = []*space.Ty{tStr}
	}
	var resS []string
	for _, r := range results {
		switch r {
		case "T":
			resS = append(resS, ft.Go("conv"))
		case "E":
			resS = append(resS, "error")
		case "I":
			resS = append(resS, "bool")
		case "ME":
			resS = append(resS, "MyErr")
		}
	}
	result := ""
	switch len(resS) {
	case 0:
	case 1:
		result = resS[0]
	default:
		result = "(" + strings.Join(resS, ", ") + ")"
	}
	reject := ""
	switch {
	case len(results) == 0 || len(results) > 2:
		reject = "needs one or two results"
	case len(results) == 2 && results[1] != "E":
		reject = "second result is not the built-in error"
	case len(results) == 2:
		cust.Err = true
	}
	if reject == "" && results[0] != "T" {
		if site == "extend" {
			cust = nil // an extend for another pair is simply unused
		} else {
			reject = "result type does not fit the target"
		}
	}
	if reject == "" {
		switch site {
		case "extend":
			if nsrc != 1 {
				reject = "extend needs exactly one source"
			}
		case "mapfunc", "default":
			if nsrc > 1 {
				reject = "at most one source"
			}
		case "structmethod":
			// every parameter of a struct method is a context (matched by type); int is never available here,
			// string only when the converter method has its string context
			if containsStr(roles, "SA") || (containsStr(roles, "SB") && !containsStr(roles, "CX")) {
				reject = "struct method parameter cannot be satisfied from the available contexts"
			}
			if len(roles) > 0 {
				sc.NoRuntime = true
			}
		}
	}
	if reject == "" && ptrMethod && cust != nil && cust.Src != nil && cust.Src.Key() == fs.Key() {
		reject = "default FUNC takes the struct by value but the method's source is a pointer"
	}
	if reject == "" && cust != nil && cust.Src != nil && cust.Src.Key() != fs.Key() {
		reject = "source parameter type does not fit"
		if site == "extend" {
			// an extend for another pair is simply unused: the conversion proceeds automatically
			reject = ""
			cust = nil
		}
	}
	// zero value returned by the function body
	retVals := make([]string, len(resS))
	for i, r := range resS {
		switch {
		case r == "error" || r == "MyErr":
			retVals[i] = "nil"
		case r == "int":
			retVals[i] = "41"
		case r == "bool":
			retVals[i] = "true"
		default:
			retVals[i] = r + "{A: 41}"
		}
	}
	ret := ""
	if len(retVals) > 0 {
		ret = "return " + strings.Join(retVals, ", ")
	}
	mlines := []string{}
	if len(ctxTypes) > 0 {
		mlines = append(mlines, "context ctxa")
	}
	mresult := tT.Go("conv")
	hasErr := cust != nil && cust.Err && reject == ""
	if cust == nil {
		cust = &model.Custom{Name: fn + "Unused", Dst: ft, ArgsFmt: []string{}}
		defer func() { delete(sc.Funcs, cust.Name) }()
		if site == "extend" {
			defer func() { delete(sc.Funcs, fn) }()
		}
	}
	if hasErr {
		mresult = "(" + mresult + ", error)"
	}
	top := &model.Method{Name: "Convert", Src: sT, Dst: tT, Fields: map[string]*model.FieldCfg{}, CtxTypes: ctxTypes, HasErr: hasErr}
	switch site {
	case "extend":
		sc.Decls = []*space.Decl{sd, td}
		if regex {
			sc.ConvLines = append(sc.ConvLines, "extend "+fn+".*")
		} else {
			sc.ConvLines = append(sc.ConvLines, "extend "+fn)
		}
		sc.FuncsSrc = fmt.Sprintf("%s\nfunc %s(%s) %s { %s }\n", strings.Join(fnDoc, "\n"), fn, strings.Join(params, ", "), result, ret)
		if cust != nil && reject == "" {
			conv.Extends = append(conv.Extends, cust)
		}
		if regex && reject == "" && (cust == nil || strings.HasSuffix(cust.Name, "Unused")) {
			// the only function matching the pattern has a usable convert signature for another pair: fine, it is unused
		}
	case "default":
		sc.Decls = []*space.Decl{sd, td}
		mlines = append(mlines, "default "+fn)
		sc.FuncsSrc = fmt.Sprintf("%s\nfunc %s(%s) %s { %s }\n", strings.Join(fnDoc, "\n"), fn, strings.Join(params, ", "), result, ret)
		top.Default = cust
	case "mapfunc":
		sc.Decls = []*space.Decl{sd, td}
		mlines = append(mlines, "map A A | "+fn)
		sc.FuncsSrc = fmt.Sprintf("%s\nfunc %s(%s) %s { %s }\n", strings.Join(fnDoc, "\n"), fn, strings.Join(params, ", "), result, ret)
		top.Fields["A"] = &model.FieldCfg{Source: "A", Fn: cust}
		top.NFieldSettings = 1
	case "structmethod":
		// the source struct has a method A(params) results instead of a field A
		sd = &space.Decl{Pkg: "in", Name: "S" + id, Under: space.St(f("Hidden", tInt))}
		sc.Decls = []*space.Decl{sd, td}
		sT = space.N(sd)
		top.Src = sT
		methodParams = "source " + sT.Go("conv")
		// the method is rendered into package "in" by hand (signatures beyond the space.Method model)
		inParams := strings.ReplaceAll(strings.Join(params, ", "), "c "+sc.ID, "c interface{}")
		if reject == "" && len(roles) == 0 {
			body := "return 41"
			if cust.Err {
				body = "return 41, nil"
			}
			sd.Methods = []space.Method{{Name: "A", Result: tInt, Err: cust.Err, Body: body}}
		} else {
			sc.Files = map[string]string{"in/m" + id + ".go": fmt.Sprintf("package in\n\nfunc (r S%s) A(%s) %s { %s }\n", id, inParams,
				strings.ReplaceAll(result, "MyErr", "interface{ Error() string }"), strings.ReplaceAll(ret, "int{A: 41}", "41"))}
			if reject == "" {
				sc.Unspec = "struct method with context parameters (run time not modelled)"
			}
		}
	}
	if cust != nil {
		sc.Funcs[fn] = "conv." + fn
	}
	if site == "structmethod" {
		sc.Funcs = map[string]string{}
	}
	if reject != "" {
		sc.Forced, sc.ForcedReject = true, reject
	}
	if ptrMethod {
		top.Src, top.Dst = space.P(sT), space.P(tT)
		methodParams = strings.Replace(methodParams, "source "+sT.Go("conv"), "source *"+sT.Go("conv"), 1)
		if strings.HasPrefix(mresult, "(") {
			mresult = "(*" + mresult[1:]
		} else {
			mresult = "*" + mresult
		}
	}
	conv.Methods = []*model.Method{top}
	sc.Methods = []*ScMethod{{Name: "Convert", Params: methodParams, Result: mresult, Lines: mlines, M: top}}
	sc.Mode = "value,nomutate"
	if site == "default" {
		sc.Mode = "value,nilkeeps"
	}
	return sc
}

func C14Scenarios(tier string) []*Scenario {
	kp, kr := 3, 2
	if tier == "thorough" {
		kp, kr = 4, 3
	}
	var out []*Scenario
	n := 0
	resLists := sequences(c14Results, kr)
	for _, variables := range []bool{false, true} {
		for _, roles := range orderedSelections(c14Roles, kp) {
			for _, res := range resLists {
				n++
				out = append(out, buildC14Method(fmt.Sprintf("%05d", n), roles, res, variables, false))
			}
		}
		// unnamed parameter lists (only source-like roles make sense without names)
		for _, roles := range orderedSelections([]string{"SA", "SB", "CX", "UT"}, 2) {
			for _, res := range sequences([]string{"T", "E"}, 2) {
				n++
				out = append(out, buildC14Method(fmt.Sprintf("%05d", n), roles, res, variables, true))
			}
		}
	}
	// a context declared by name on one method must not make the same-named parameter of a sibling method a context
	for _, declName := range []string{"Aaa", "Zzz"} {
		for _, sibDeclares := range []bool{false, true} {
			n++
			id := fmt.Sprintf("%05d", n)
			u := space.StdUniverse()
			pIn, pOut := space.N(u.Get("in", "P")), space.N(u.Get("out", "P"))
			sc := &Scenario{ID: "GL" + id, PropGen: "C14", PropVal: "C14", Test: "Convert", Funcs: map[string]string{},
				Desc: map[string]any{"class": fmt.Sprintf("sibling-context-name declaring=%s sibling-declares=%v", declName, sibDeclares)}}
			conv := &model.Converter{OutPkg: "conv/generated", LitPkg: "conv"}
			sc.Conv = conv
			decl := &model.Method{Name: declName, Src: pIn, Dst: pOut, Fields: map[string]*model.FieldCfg{}, CtxTypes: []*space.Ty{tStr}}
			sib := &model.Method{Name: "Convert", Src: space.S(pIn), Dst: space.S(pOut), Fields: map[string]*model.FieldCfg{}, CtxTypes: []*space.Ty{tStr}}
			conv.Methods = []*model.Method{sib, decl}
			var sibLines []string
			if sibDeclares {
				sibLines = []string{"context ctxa"}
			} else {
				sc.Forced, sc.ForcedReject = true, "parameter ctxa of Convert is not declared as context: two sources"
			}
			sc.Methods = []*ScMethod{
				{Name: "Convert", Params: "ctxa string, source " + space.S(pIn).Go("conv"), Result: space.S(pOut).Go("conv"), Lines: sibLines, M: sib},
				{Name: declName, Params: "source " + pIn.Go("conv") + ", ctxa string", Result: pOut.Go("conv"), Lines: []string{"context ctxa"}, M: decl},
			}
			sc.SrcIdx, sc.CtxIdx = 1, []int{0}
			sc.Mode = "value,nomutate"
			out = append(out, sc)
		}
	}
	for _, site := range []string{"extend", "mapfunc", "default"} {
		for _, kind := range c14DeclKinds {
			n++
			out = append(out, buildC14Decl(fmt.Sprintf("%05d", n), site, kind))
		}
	}
	for _, site := range []string{"extend", "extend-regex", "mapfunc", "default", "default-ptrmethod", "structmethod"} {
		for _, roles := range orderedSelections([]string{"SA", "SB", "CX", "CV"}, 3) {
			for _, res := range sequences(c14Results, 2) {
				if site == "structmethod" && (containsStr(roles, "CV") || len(roles) > 2) {
					continue
				}
				n++
				out = append(out, buildC14Custom(fmt.Sprintf("%05d", n), site, roles, res))
			}
		}
	}
	return out
}

// ---- what the name given to extend / map|FUNC / default refers to ----

var c14DeclKinds = []string{"func", "generic", "generic-result", "unexported-local", "unexported-other-pkg", "exported-other-pkg",
	"var-nonfunc", "var-func", "const", "type-func", "type-alias-func", "missing", "missing-pkg", "method-value-var", "variadic", "variadic-extra"}

func buildC14Decl(id, site, kind string) *Scenario {
	sc := &Scenario{ID: "HD" + id, PropGen: "C14", PropVal: "C14", Test: "Convert", Funcs: map[string]string{},
		Desc: map[string]any{"class": "site=" + site + " decl=" + kind}}
	conv := &model.Converter{OutPkg: "conv/generated", LitPkg: "conv"}
	sc.Conv = conv
	sd := &space.Decl{Pkg: "in", Name: "S" + id, Under: space.St(f("A", tInt))}
	td := &space.Decl{Pkg: "out", Name: "T" + id, Under: space.St(f("A", tInt))}
	sc.Decls = []*space.Decl{sd, td}
	sT, tT := space.N(sd), space.N(td)
	fs, ft := sT, tT
	ret := func(pkg string) string { return tT.Go(pkg) + "{A: 41}" }
	if site == "mapfunc" {
		fs, ft = tInt, tInt
		ret = func(string) string { return "41" }
	}
	fn := "Fd" + id
	ref := fn // what is written in the setting
	expr := "conv." + fn
	reject, unspec := "", ""
	sig := func(pkg string) string { return fmt.Sprintf("(s %s) %s", fs.Go(pkg), ft.Go(pkg)) }
	switch kind {
	case "func":
		sc.FuncsSrc = fmt.Sprintf("func %s%s { return %s }\n", fn, sig("conv"), ret("conv"))
	case "generic":
		sc.FuncsSrc = fmt.Sprintf("func %s[X any](s X) %s { return %s }\n", fn, ft.Go("conv"), ret("conv"))
		expr = fmt.Sprintf("conv.%s[%s]", fn, fs.Go("main"))
		if site == "extend" {
			reject = "generic functions cannot be used for extend"
		}
	case "generic-result":
		// the type parameter only occurs in the result: it cannot be inferred at the call site
		sc.FuncsSrc = fmt.Sprintf("func %s[X any](s %s) X { var x X; return x }\n", fn, fs.Go("conv"))
		reject = "generic function whose type parameter cannot be inferred"
		if site != "extend" {
			// the documentation allows generic functions here; one that cannot be instantiated from the call is
			// beyond the property's text, any diagnostic is fine but generated code must compile
			reject, unspec = "", "generic function whose type parameter is not inferable"
			sc.NoRuntime = true
		}
	case "variadic":
		// the only parameter is variadic: called with one argument it would receive a one-element list, but the
		// function is registered for []S sources
		sc.FuncsSrc = fmt.Sprintf("func %s(s ...%s) %s { return %s }\n", fn, fs.Go("conv"), ft.Go("conv"), ret("conv"))
		expr, reject = "", "variadic parameter"
	case "variadic-extra":
		sc.FuncsSrc = fmt.Sprintf("func %s(s %s, more ...int) %s { return %s }\n", fn, fs.Go("conv"), ft.Go("conv"), ret("conv"))
		expr, reject = "", "variadic parameter"
	case "unexported-local":
		fn = "fd" + id
		ref, expr = fn, ""
		sc.FuncsSrc = fmt.Sprintf("func %s%s { return %s }\nvar _ = %s\n", fn, sig("conv"), ret("conv"), fn)
		reject = "unexported function is not accessible from the output package"
		sc.SeparateOutputOnly = true
	case "unexported-other-pkg":
		ref, expr = "vx/ext:fd"+id, ""
		sc.Files = map[string]string{"ext/ext.go": fmt.Sprintf("package ext\n\nimport \"vx/in\"\nimport \"vx/out\"\n\nvar _ in.P\nvar _ out.P\n\nfunc fd%s%s { return %s }\nvar _ = fd%s\n", id, sig("ext"), ret("ext"), id)}
		reject = "unexported function of another package"
	case "exported-other-pkg":
		ref, expr = "vx/ext:"+fn, "ext."+fn
		sc.Files = map[string]string{"ext/ext.go": fmt.Sprintf("package ext\n\nimport \"vx/in\"\nimport \"vx/out\"\n\nvar _ in.P\nvar _ out.P\n\nfunc %s%s { return %s }\n", fn, sig("ext"), ret("ext"))}
		sc.Imports = append(sc.Imports, "ext")
		sc.FuncsSrc = "var _ = ext." + fn + "\n"
	case "var-nonfunc":
		sc.FuncsSrc = fmt.Sprintf("var %s = 3\n", fn)
		expr, reject = "", "variable is not a function"
	case "var-func":
		sc.FuncsSrc = fmt.Sprintf("var %s = func%s { return %s }\n", fn, sig("conv"), ret("conv"))
		unspec = "function-typed variable"
	case "method-value-var":
		sc.FuncsSrc = fmt.Sprintf("type hold%s struct{}\n\nfunc (hold%s) M%s { return %s }\n\nvar %s = hold%s{}.M\n", id, id, sig("conv"), ret("conv"), fn, id)
		unspec = "function-typed variable (method value)"
	case "const":
		sc.FuncsSrc = fmt.Sprintf("const %s = 3\n", fn)
		expr, reject = "", "constant is not a function"
	case "type-func":
		sc.FuncsSrc = fmt.Sprintf("type %s func%s\n", fn, sig("conv"))
		expr, reject = "", "type is not a function"
	case "type-alias-func":
		sc.FuncsSrc = fmt.Sprintf("type %s = func%s\n", fn, sig("conv"))
		expr, reject = "", "type alias is not a function"
	case "missing":
		expr, reject = "", "no such declaration"
	case "missing-pkg":
		ref, expr, reject = "vx/nonexistent:"+fn, "", "no such package"
	}
	cust := &model.Custom{Name: fn, Src: fs, Dst: ft, ArgsFmt: []string{"src"}}
	if strings.HasPrefix(expr, "ext.") {
		cust.Pkg = "ext"
	}
	top := &model.Method{Name: "Convert", Src: sT, Dst: tT, Fields: map[string]*model.FieldCfg{}}
	var mlines []string
	switch site {
	case "extend":
		sc.ConvLines = append(sc.ConvLines, "extend "+ref)
		if reject == "" {
			conv.Extends = append(conv.Extends, cust)
		}
	case "default":
		mlines = append(mlines, "default "+ref)
		top.Default = cust
	case "mapfunc":
		mlines = append(mlines, "map A A | "+ref)
		top.Fields["A"] = &model.FieldCfg{Source: "A", Fn: cust}
		top.NFieldSettings = 1
	}
	if expr != "" {
		sc.Funcs[fn] = expr
	}
	if reject != "" {
		sc.Forced, sc.ForcedReject = true, reject
	}
	sc.Unspec = unspec
	conv.Methods = []*model.Method{top}
	sc.Methods = []*ScMethod{{Name: "Convert", Params: "source " + sT.Go("conv"), Result: tT.Go("conv"), Lines: mlines, M: top}}
	sc.Mode = "value,nomutate"
	if site == "default" {
		sc.Mode = "value,nilkeeps"
	}
	return sc
}
