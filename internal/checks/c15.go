package checks

import (
	"fmt"
	"go/parser"
	"go/token"
	"os"
	"path"
	"path/filepath"
	"regexp"
	"strings"
	"sync"

	"verif/internal/drive"
	"verif/internal/emit"
	"verif/internal/ev"
	"verif/internal/fshist"
)

// ---- C15: each converter lands in the configured file and package; nothing else is written ----

type c15File struct {
	name string
	line func(root, cwd string) string // output:file value ("" = absent)
	// rel returns the expected path relative to the module root; declDir is the directory of the declaring file
	rel func(declDir, cwdRel string) string
}

var c15Files = []c15File{
	{"default", func(_, _ string) string { return "" }, func(d, _ string) string { return path.Join(d, "generated", "generated.go") }},
	{"sub-dir", func(_, _ string) string { return "./x/y.go" }, func(d, _ string) string { return path.Join(d, "x", "y.go") }},
	{"parent-dir", func(_, _ string) string { return "../gen/z.go" }, func(d, _ string) string { return path.Join(d, "..", "gen", "z.go") }},
	{"same-dir", func(_, _ string) string { return "./same_gen.go" }, func(d, _ string) string { return path.Join(d, "same_gen.go") }},
	{"no-dot-prefix", func(_, _ string) string { return "out/o.go" }, func(d, _ string) string { return path.Join(d, "out", "o.go") }},
	{"absolute", func(root, _ string) string { return filepath.Join(root, "abs", "a.go") }, func(_, _ string) string { return "abs/a.go" }},
	{"cwd-relative", func(_, _ string) string { return "@cwd/viacwd/b.go" }, func(_, cwdRel string) string { return path.Join(cwdRel, "viacwd", "b.go") }},
	{"odd-dir-name", func(_, _ string) string { return "./My-Out2/o.go" }, func(d, _ string) string { return path.Join(d, "My-Out2", "o.go") }},
}

// c15Pkg: how output:package is written. truePath is the import path of the target directory.
type c15Pkg struct {
	name string
	line func(truePath string) string
	// pkgName: explicitly configured name ("" = none)
	pkgName string
}

var c15Pkgs = []c15Pkg{
	{"absent", func(string) string { return "" }, ""},
	{"path", func(p string) string { return p }, ""},
	{"path:name", func(p string) string { return p + ":custom" }, "custom"},
	{":name", func(string) string { return ":custom" }, "custom"},
}

// other-name-broken: the existing package of another name does not type-check while goverter runs (in practice a
// hand-written file that uses the not-yet-generated code); its name must still be taken over
var c15Existing = []string{"none", "same-name", "other-name", "other-name-broken"}

// root+cli-file: a command-line output:file that the converter's own output:file overrides (it only differs from
// "root" for converters that set output:file themselves)
var c15Invocations = []string{"root", "chdir", "cwd-flag", "root+cli-file"}

var reNonAlnum = regexp.MustCompile(`[^a-z0-9]`)

// normalisedDirName: lower-case alphanumerics of the last path element, leading digits dropped, "pkg" if empty.
func normalisedDirName(importPath string) string {
	a := strings.ToLower(path.Base(importPath))
	a = reNonAlnum.ReplaceAllString(a, "")
	for len(a) > 0 && a[0] >= '0' && a[0] <= '9' {
		a = a[1:]
	}
	if a == "" {
		return "pkg"
	}
	return a
}

type c15Case struct {
	id       int
	file     c15File
	pkg      c15Pkg
	existing string
	inv      string
	shape    string // single | two-same-file | two-different-package | two-files | iface-plus-variables
}

func c15Cases(thorough bool) []c15Case {
	var out []c15Case
	n := 0
	for _, fl := range c15Files {
		for _, pk := range c15Pkgs {
			for _, ex := range c15Existing {
				for ii, inv := range c15Invocations {
					if !thorough && ii > 0 && ii < 3 && fl.name != "cwd-relative" && fl.name != "default" {
						continue
					}
					n++
					out = append(out, c15Case{n, fl, pk, ex, inv, "single"})
				}
			}
		}
	}
	for _, shape := range []string{"two-same-file", "two-different-package", "two-files", "iface-plus-variables", "variables-moved", "cli-name-then-path", "two-dirs-prefix-name", "two-dirs-nested", "same-file-implicit-vs-raw-dir-name"} {
		for _, fl := range c15Files[:4] {
			for _, pk := range c15Pkgs[:3] {
				n++
				out = append(out, c15Case{n, fl, pk, "none", "root", shape})
			}
		}
	}
	return out
}

func RunC15(run *ev.Run) {
	cases := c15Cases(run.Thorough())
	base, err := os.MkdirTemp(emit.ScratchRoot(), "verif-c15-")
	if err != nil {
		run.Harness = true
		return
	}
	defer os.RemoveAll(base)
	bin := drive.GoverterBin()
	var mu sync.Mutex
	var wg sync.WaitGroup
	sem := make(chan bool, nWorkers)
	for _, c := range cases {
		wg.Add(1)
		sem <- true
		go func(c c15Case) {
			defer wg.Done()
			defer func() { <-sem }()
			root := filepath.Join(base, fmt.Sprintf("m%d", c.id))
			probs, outcome := c15Run(bin, root, c)
			os.RemoveAll(root)
			mu.Lock()
			run.Outcome(outcome)
			for _, p := range probs {
				// C01 runs the same product for its compile clause only
				if run.Prop == "C01" && p.Symptom != "module-does-not-build" && p.Symptom != "output-does-not-parse" {
					continue
				}
				run.Report(p)
			}
			if c.id%37 == 0 {
				run.Sample(map[string]any{"file": c.file.name, "package": c.pkg.name, "existing": c.existing, "invocation": c.inv, "shape": c.shape, "outcome": outcome})
			}
			mu.Unlock()
		}(c)
	}
	wg.Wait()
	run.Cov["states"] = len(cases)
	run.Cov["transitions"] = len(cases)
	run.Cov["evaluations"] = len(cases)
	run.Cov["distinct_nontrivial"] = len(cases)
	run.Cov["traces_validated_against_impl"] = len(cases)
	run.Cov["exhaustive"] = true
	// across input packages: where a package's converter lands must not depend on a sibling package of the same run
	nx := 0
	if run.Prop == "C15" {
		nx = RunXConvFiltered(run, "output-")
	}
	run.Cov["cross_package_runs"] = nx
	run.Cov["evaluations"] = len(cases) + nx
	run.Cov["rule"] = "product of output:file {absent, ./x/y.go, ../gen/z.go, same directory, no ./ prefix, absolute, @cwd/..., directory name needing normalisation} x output:package {absent, PATH, PATH:NAME, :NAME} x target package {absent, existing with the same name, existing with another name, existing with another name and not type-checking} x invocation {module root, chdir into the package, -cwd, module root with a command-line output:file that the converter overrides} plus multi-converter shapes {two converters one file, two converters one file with different packages (must fail), two files in one package, interface + variables block}; the real CLI runs with umask 0 on a scratch module; oracle: the set of created/changed paths equals the independently predicted set, package clause as predicted (configured name, else existing package, else normalised directory name), new files 0644, new directories 0755, merged files parse and the module builds; across input packages: a package whose output directory holds an existing package of another name, referenced by a sibling package through extend / map|FUNC / default, gets byte-identical files in the joint run and when generated alone"
}

func c15Run(bin, root string, c c15Case) ([]ev.Violation, string) {
	declDir := "conv"
	cwdRel := ""
	args := []string{"gen"}
	runDir := ""
	pattern := "./conv"
	switch c.inv {
	case "chdir":
		runDir, cwdRel, pattern = "conv", "conv", "."
	case "cwd-flag":
		args = append(args, "-cwd", "conv")
		cwdRel, pattern = "conv", "."
	case "root+cli-file":
		if c.file.name != "default" {
			args = append(args, "-g", "output:file ./fromcli/cli.go")
		}
	}
	args = append(args, pattern)
	rel := path.Clean(c.file.rel(declDir, cwdRel))
	targetDir := path.Dir(rel)
	truePath := "vx"
	if targetDir != "." {
		truePath = "vx/" + targetDir
	}
	desc := map[string]any{"kind": "c15", "file": c.file.name, "package": c.pkg.name, "existing": c.existing, "invocation": c.inv, "shape": c.shape}
	site := fmt.Sprintf("file=%s pkg=%s existing=%s inv=%s shape=%s", c.file.name, c.pkg.name, c.existing, c.inv, c.shape)
	var probs []ev.Violation
	add := func(sym, detail string) {
		probs = append(probs, ev.Violation{Site: site, Symptom: sym, Detail: site + "\n" + detail, Case: desc})
	}
	lines := func(fileLine, pkgLine string) string {
		s := ""
		if fileLine != "" {
			s += "// goverter:output:file " + fileLine + "\n"
		}
		if pkgLine != "" {
			s += "// goverter:output:package " + pkgLine + "\n"
		}
		return s
	}
	if c.shape == "variables-moved" && c.file.name == "default" {
		rel = "conv/conv.gen.go"
		targetDir, truePath = "conv", "vx/conv"
	}
	fl, pl := c.file.line(root, cwdRel), c.pkg.line(truePath)
	t := fshist.Tree{"go.mod": {Data: []byte("module vx\n\ngo 1.22\n"), Mode: 0o644}, "conv": {Dir: true, Mode: 0o755}}
	types := "type In struct{ A int }\ntype Out struct{ A int }\n"
	src := "package conv\n\n" + types + "\n// goverter:converter\n" + lines(fl, pl) + "type C interface {\n\tConvert(source In) Out\n}\n"
	expectFiles := map[string]bool{rel: true}
	_ = fl
	expectFail := false
	second := ""
	switch c.shape {
	case "two-same-file":
		second = "// goverter:converter\n" + lines(fl, pl) + "type D interface {\n\tConvert(source []In) []Out\n}\n"
	case "two-different-package":
		other := "vx/elsewhere"
		if pl == "" {
			other = truePath + ":othername"
		}
		second = "// goverter:converter\n" + lines(fl, other) + "type D interface {\n\tConvert(source []In) []Out\n}\n"
		expectFail = true
	case "two-files":
		fl2 := strings.Replace(fl, ".go", "_second.go", 1)
		if fl == "" {
			fl2 = "./generated/second.go"
		}
		second = "// goverter:converter\n" + lines(fl2, pl) + "type D interface {\n\tConvert(source []In) []Out\n}\n"
		rel2 := strings.Replace(rel, ".go", "_second.go", 1)
		if fl == "" {
			rel2 = path.Join(declDir, "generated", "second.go")
		}
		expectFiles[rel2] = true
	case "two-dirs-prefix-name":
		// a sibling output directory whose name is a string prefix of the first one ("generated" → "generate")
		base := path.Base(path.Dir(rel))
		sib := "generate"
		if targetDir != declDir && c.file.name != "absolute" && c.file.name != "parent-dir" && len(base) >= 2 {
			sib = base[:len(base)-1]
		}
		second = "// goverter:converter\n// goverter:output:file ./" + sib + "/second.go\ntype D interface {\n\tConvert(source []In) []Out\n}\n"
		expectFiles[path.Join(declDir, sib, "second.go")] = true
	case "same-file-implicit-vs-raw-dir-name":
		// both select ./my_gen/out.go; one leaves the package name to goverter (normalised: mygen), the other names it my_gen
		src = "package conv\n\n" + types + "\n// goverter:converter\n// goverter:output:file ./my_gen/out.go\ntype C interface {\n\tConvert(source In) Out\n}\n"
		second = "// goverter:converter\n// goverter:output:file ./my_gen/out.go\n// goverter:output:package :my_gen\ntype D interface {\n\tConvert(source []In) []Out\n}\n"
		expectFail = true
	case "two-dirs-nested":
		second = "// goverter:converter\n// goverter:output:file ./deep/er/nested/second.go\ntype D interface {\n\tConvert(source []In) []Out\n}\n"
		expectFiles[path.Join(declDir, "deep", "er", "nested", "second.go")] = true
	case "iface-plus-variables":
		second = "// goverter:variables\nvar (\n\tConvertV func(source In) Out\n)\n"
		expectFiles["conv/conv.gen.go"] = true
	case "variables-moved":
		// a variables block whose output is moved to another file/package: the package name must follow the same rules
		src = "package conv\n\n" + types + "\n// goverter:variables\n" + lines(fl, pl) + "var (\n\tConvertV func(source In) Out\n)\n"

	case "cli-name-then-path":
		// an earlier NAME from the command line is reset by a later path-only output:package on the converter
		if c.pkg.name == "path" {
			args = append([]string{"gen", "-g", "output:package :fromcli"}, args[1:]...)
		}
	}
	t["conv/conv.go"] = fshist.Entry{Data: []byte(src + "\n" + second), Mode: 0o644}
	existingName := ""
	if c.existing != "none" && targetDir != declDir {
		existingName = normalisedDirName(truePath)
		if strings.HasPrefix(c.existing, "other-name") {
			existingName = "othername"
		}
		d := targetDir
		for d != "." && d != "" {
			t[d] = fshist.Entry{Dir: true, Mode: 0o755}
			d = path.Dir(d)
		}
		doc := "package " + existingName + "\n"
		if c.existing == "other-name-broken" {
			doc += "\nvar _ = CImpl{}\n" // defined by the file goverter is about to write into this package
		}
		t[path.Join(targetDir, "doc.go")] = fshist.Entry{Data: []byte(doc), Mode: 0o644}
	}
	if targetDir == declDir {
		existingName = "conv"
	}
	// expected package clause
	wantPkg := ""
	switch {
	case c.pkg.pkgName != "":
		wantPkg = c.pkg.pkgName
	case existingName != "":
		wantPkg = existingName
	default:
		wantPkg = normalisedDirName(truePath)
	}
	after, r, err := fshist.RunIn(bin, t, root, runDir, nil, args...)
	if err != nil {
		return []ev.Violation{{Property: "HARNESS", Site: "c15", Symptom: "harness", Detail: err.Error()}}, "harness-error"
	}
	created, changed, deleted := fshist.Diff(t, after)
	if expectFail {
		if r.Exit != 1 {
			add("conflicting-packages-accepted", fmt.Sprintf("two converters select one file with different packages but exit=%d", r.Exit))
		}
		if len(created)+len(changed)+len(deleted) > 0 {
			add("failing-run-changed-files", fmt.Sprint(created, changed, deleted))
		}
		return probs, "must-fail/exit:" + fmt.Sprint(r.Exit)
	}
	if r.Exit != 0 {
		// a same-directory output whose explicit name contradicts the declaring package is a legitimate error source
		add("generation-failed", fmt.Sprintf("exit %d: %s", r.Exit, firstN(r.Stderr, 600)))
		return probs, "ok-expected/exit:" + fmt.Sprint(r.Exit)
	}
	// 1. exactly the predicted files (plus the directories leading to them) were created
	for f := range expectFiles {
		if _, ok := after[f]; !ok {
			add("output-file-missing", "expected "+f+"; created: "+fmt.Sprint(created))
		}
	}
	for _, p := range append(created, changed...) {
		e := after[p]
		if e.Dir {
			isParent := false
			for f := range expectFiles {
				if strings.HasPrefix(f, p+"/") {
					isParent = true
				}
			}
			if !isParent {
				add("unexpected-directory-created", p)
			} else if e.Mode != 0o755 {
				add("directory-mode", fmt.Sprintf("%s has mode %o, want 755", p, e.Mode))
			}
			continue
		}
		if !expectFiles[p] {
			add("unexpected-file-written", p+" (expected only "+fmt.Sprint(keysOf(expectFiles))+")")
			continue
		}
		if _, existed := t[p]; !existed && e.Mode != 0o644 {
			add("file-mode", fmt.Sprintf("%s has mode %o, want 644", p, e.Mode))
		}
	}
	if len(deleted) > 0 {
		add("files-deleted", fmt.Sprint(deleted))
	}
	// 2. package clause and well-formedness
	if e, ok := after[rel]; ok {
		f, perr := parser.ParseFile(token.NewFileSet(), rel, e.Data, parser.PackageClauseOnly)
		if perr != nil {
			add("output-does-not-parse", perr.Error())
		} else if f.Name.Name != wantPkg {
			add("package-clause", fmt.Sprintf("%s has package clause %q, want %q", rel, f.Name.Name, wantPkg))
		}
		if _, perr := parser.ParseFile(token.NewFileSet(), rel, e.Data, 0); perr != nil {
			add("output-does-not-parse", perr.Error())
		}
	}
	// 3. the module builds when the configuration is self-consistent
	consistent := !(strings.HasPrefix(c.existing, "other-name") && c.pkg.pkgName != "") && (c.existing != "other-name-broken" || c.shape == "single") && !(targetDir == declDir && c.pkg.pkgName != "") &&
		!(c.pkg.pkgName != "" && existingName != "" && existingName != c.pkg.pkgName)
	if consistent {
		br := drive.RunGo(root, 5*60e9, "build", "./...")
		if br.Exit != 0 {
			add("module-does-not-build", firstN(br.Stderr, 600))
		}
	}
	return probs, "ok-expected/exit:0"
}
