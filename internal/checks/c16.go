package checks

import (
	"bytes"
	"fmt"
	"os"
	"path/filepath"
	"sort"
	"strings"
	"sync"

	"verif/internal/drive"
	"verif/internal/emit"
	"verif/internal/ev"
	"verif/internal/fshist"
)

// ---- C16 / C09(3): histories of edits, corruptions and goverter runs over a tree ----

type histLayout struct {
	name string
	// files returns the input files of version v (1, 2 = changed types, 3 = failing input)
	files func(v int) map[string]string
	// outputs are the relative paths of the generated files
	outputs []string
	// pattern for the CLI
	pattern []string
}

func histLayouts() []histLayout {
	types := func(v int) string {
		switch v {
		case 1:
			return "type In struct{ A int }\ntype Out struct{ A int }\n"
		case 2:
			// the target type is renamed and gets a field: output generated for v1 no longer compiles
			return "type In struct{ A int; B string }\ntype Res struct{ A int; B string }\n"
		}
		return "type In struct{ A int }\ntype Out struct{ A int; Missing string }\n"
	}
	tgt := func(v int) string {
		if v == 2 {
			return "Res"
		}
		return "Out"
	}
	return []histLayout{
		{name: "separate-package", outputs: []string{"conv/generated/generated.go"}, pattern: []string{"./conv"},
			files: func(v int) map[string]string {
				return map[string]string{
					"conv/conv.go": "package conv\n\n" + types(v) + "\n// goverter:converter\ntype C interface {\n\tConvert(source In) " + tgt(v) + "\n}\n",
					// a user file guarded by the output constraint that uses the generated code
					"conv/use/use.go": "//go:build !goverter\n\npackage use\n\nimport (\n\t\"vx/conv\"\n\t\"vx/conv/generated\"\n)\n\nvar Impl conv.C = &generated.CImpl{}\n",
				}
			}},
		{name: "same-package", outputs: []string{"conv/conv_gen.go"}, pattern: []string{"./conv"},
			files: func(v int) map[string]string {
				return map[string]string{
					"conv/conv.go": "package conv\n\n" + types(v) + "\n// goverter:converter\n// goverter:output:file ./conv_gen.go\n// goverter:output:package vx/conv\ntype C interface {\n\tConvert(source In) " + tgt(v) + "\n}\n",
					"conv/use.go":  "//go:build !goverter\n\npackage conv\n\nvar Impl C = &CImpl{}\n",
				}
			}},
		{name: "shared-file-two-converters", outputs: []string{"conv/shared_gen.go"}, pattern: []string{"./conv"},
			files: func(v int) map[string]string {
				return map[string]string{
					"conv/conv.go": "package conv\n\n" + types(v) + "\n// goverter:converter\n// goverter:output:file ./shared_gen.go\n// goverter:output:package vx/conv\ntype C interface {\n\tConvert(source In) " + tgt(v) + "\n}\n",
					"conv/d.go":    "package conv\n\n// goverter:converter\n// goverter:output:file ./shared_gen.go\n// goverter:output:package vx/conv\ntype D interface {\n\tConvert(source []In) []" + tgt(v) + "\n}\n",
				}
			}},
		{name: "variables-gen-file", outputs: []string{"conv/conv.gen.go"}, pattern: []string{"./conv"},
			files: func(v int) map[string]string {
				return map[string]string{
					"conv/conv.go": "package conv\n\n" + types(v) + "\n// goverter:variables\nvar (\n\tConvert func(source In) " + tgt(v) + "\n)\n",
					"conv/use.go":  "//go:build !goverter\n\npackage conv\n\nfunc Use(i In) " + tgt(v) + " { return Convert(i) }\n",
				}
			}},
	}
}

type tagPair struct {
	name       string
	tags       string
	constraint string
	args       []string
}

var histTags = []tagPair{
	{"default", "goverter", "!goverter", nil},
	{"custom-x", "x", "!x", []string{"-build-tags", "x", "-output-constraint", "!x"}},
	{"list-a-b", "a,b", "!a", []string{"-build-tags", "a,b", "-output-constraint", "!a"}},
	{"list-b-a", "b,a", "!a", []string{"-build-tags", "b,a", "-output-constraint", "!a"}},
	// constraints that are expressions and start with a positive term (letters, digits, dots)
	{"expr-go-version", "gen", "go1.18 && !gen", []string{"-build-tags", "gen", "-output-constraint", "go1.18 && !gen"}},
	{"expr-os-or", "gen", "(linux || darwin || windows) && !gen", []string{"-build-tags", "gen", "-output-constraint", "(linux || darwin || windows) && !gen"}},
	{"positive-tag-only", "", "build_generated", []string{"-build-tags", "", "-output-constraint", "build_generated"}},
}

func setVersion(t fshist.Tree, l histLayout, v int, constraint string) fshist.Tree {
	// remove input files of all versions, then add version v
	for _, vv := range []int{1, 2, 3} {
		for p := range l.files(vv) {
			delete(t, p)
		}
	}
	for p, c := range l.files(v) {
		c = strings.ReplaceAll(c, "//go:build !goverter", "//go:build "+constraint)
		d := filepath.ToSlash(filepath.Dir(p))
		for d != "." && d != "" {
			t[d] = fshist.Entry{Dir: true, Mode: 0o755}
			d = filepath.ToSlash(filepath.Dir(d))
		}
		t[p] = fshist.Entry{Data: []byte(c), Mode: 0o644}
	}
	t["VERSION"] = fshist.Entry{Data: []byte(fmt.Sprint(v)), Mode: 0o644}
	return t
}

func versionOf(t fshist.Tree) int {
	var v int
	fmt.Sscan(string(t["VERSION"].Data), &v)
	return v
}

// histWorld builds the world of one layout × tag pair. problems carry the owning property as prefix of Site: "C16|...", "C09|...", "C17|...".
func histWorld(l histLayout, tp tagPair, depth int, bin string) (fshist.World, error) {
	init := fshist.Tree{"go.mod": {Data: []byte("module vx\n\ngo 1.22\n"), Mode: 0o644}}
	init = setVersion(init, l, 1, tp.constraint)
	runArgs := append(append([]string{"gen"}, tp.args...), l.pattern...)
	// clean generation per version
	clean := map[int]fshist.Tree{}
	cleanExit := map[int]int{}
	base, err := os.MkdirTemp(emit.ScratchRoot(), "verif-hist-clean-")
	if err != nil {
		return fshist.World{}, err
	}
	defer os.RemoveAll(base)
	for _, v := range []int{1, 2, 3} {
		t := setVersion(init.Clone(), l, v, tp.constraint)
		after, r, err := fshist.RunIn(bin, t, filepath.Join(base, fmt.Sprint("v", v)), "", nil, runArgs...)
		if err != nil {
			return fshist.World{}, err
		}
		clean[v] = after
		cleanExit[v] = r.Exit
		if v == 3 && r.Exit == 0 {
			return fshist.World{}, fmt.Errorf("layout %s tags %s: the failing input version generates successfully", l.name, tp.name)
		}
		if v != 3 && r.Exit != 0 {
			// the tree's only compile errors are in constraint-guarded user files referencing not-yet-generated code
			return fshist.World{}, &cleanBlocked{world: l.name + "/" + tp.name, v: v, exit: r.Exit, stderr: r.Stderr, args: runArgs}
		}
	}
	outSet := map[string]bool{}
	for _, o := range l.outputs {
		outSet[o] = true
	}
	hasOutput := func(t fshist.Tree) bool {
		for _, o := range l.outputs {
			if _, ok := t[o]; ok {
				return true
			}
		}
		return false
	}
	keepHeader := func(b []byte) []byte {
		lines := bytes.SplitN(b, []byte("\n"), 3)
		n := 2
		if len(lines) < 2 {
			n = len(lines)
		}
		return append(bytes.Join(lines[:n], []byte("\n")), '\n')
	}
	events := []fshist.Event{
		{Name: "run", Apply: func(t fshist.Tree, scratch string) (fshist.Tree, *fshist.Run, error) {
			return fshist.RunIn(bin, t, scratch, "", nil, runArgs...)
		}},
	}
	for _, v := range []int{1, 2, 3} {
		v := v
		events = append(events, fshist.Event{Name: fmt.Sprintf("edit-v%d", v),
			Enabled: func(t fshist.Tree) bool { return versionOf(t) != v },
			Apply: func(t fshist.Tree, _ string) (fshist.Tree, *fshist.Run, error) {
				return setVersion(t, l, v, tp.constraint), nil, nil
			}})
	}
	events = append(events,
		fshist.Event{Name: "corrupt-body", Enabled: hasOutput, Apply: func(t fshist.Tree, _ string) (fshist.Tree, *fshist.Run, error) {
			for _, o := range l.outputs {
				if e, ok := t[o]; ok {
					e.Data = append(keepHeader(e.Data), []byte("\npackage broken\n\nfunc ( {{{ not go\n")...)
					t[o] = e
				}
			}
			return t, nil, nil
		}},
		fshist.Event{Name: "append-garbage", Enabled: hasOutput, Apply: func(t fshist.Tree, _ string) (fshist.Tree, *fshist.Run, error) {
			for _, o := range l.outputs {
				if e, ok := t[o]; ok {
					e.Data = append(append([]byte{}, e.Data...), []byte("\nvar garbage = undefinedIdentifier + 1 // stale\n")...)
					t[o] = e
				}
			}
			return t, nil, nil
		}},
		fshist.Event{Name: "delete-output", Enabled: hasOutput, Apply: func(t fshist.Tree, _ string) (fshist.Tree, *fshist.Run, error) {
			for _, o := range l.outputs {
				delete(t, o)
			}
			return t, nil, nil
		}},
	)
	w := fshist.World{Name: l.name + "/" + tp.name, Init: init, Events: events, Depth: depth}
	w.Check = func(hist []string, before, after fshist.Tree, run *fshist.Run) []fshist.Problem {
		if run == nil {
			return nil
		}
		var ps []fshist.Problem
		v := versionOf(before)
		created, changed, deleted := fshist.Diff(before, after)
		cls := l.name + "/" + tp.name
		if v == 3 {
			if run.Exit != 1 {
				ps = append(ps, fshist.Problem{Site: "C17|" + cls + "|exit", Detail: fmt.Sprintf("failing input: exit %d", run.Exit)})
			}
			if len(created)+len(changed)+len(deleted) > 0 {
				ps = append(ps, fshist.Problem{Site: "C17|" + cls + "|changed", Detail: fmt.Sprintf("failing run changed the tree: created %v changed %v deleted %v", created, changed, deleted)})
			}
			return ps
		}
		if run.Exit != 0 {
			ps = append(ps, fshist.Problem{Site: "C16|" + cls + "|regeneration-blocked", Detail: fmt.Sprintf("regeneration of v%d failed (exit %d) although the only compile errors are in generated or constraint-guarded files:\n%s", v, run.Exit, firstN(run.Stderr, 600))})
			return ps
		}
		for _, o := range l.outputs {
			want, got := clean[v][o], after[o]
			if !bytes.Equal(want.Data, got.Data) {
				ps = append(ps, fshist.Problem{Site: "C09|" + cls + "|differs-from-clean", Detail: fmt.Sprintf("%s after this history differs from generation on a clean tree (%d vs %d bytes)", o, len(got.Data), len(want.Data))})
				// C16: "regenerated successfully" means the stale file was replaced by the output of this run
				ps = append(ps, fshist.Problem{Site: "C16|" + cls + "|stale-output-not-replaced", Detail: fmt.Sprintf("%s: the run exited 0 over a stale/garbled previous output but the file is not the regenerated output (%d bytes, clean generation has %d)", o, len(got.Data), len(want.Data))})
			}
			lines := strings.SplitN(string(got.Data), "\n", 3)
			if len(lines) < 2 || !strings.HasPrefix(lines[0], "// Code generated by") || !strings.HasSuffix(lines[0], "DO NOT EDIT.") {
				ps = append(ps, fshist.Problem{Site: "C16|" + cls + "|header", Detail: o + ": first line is not the generated-code header"})
			} else if lines[1] != "//go:build "+tp.constraint {
				ps = append(ps, fshist.Problem{Site: "C16|" + cls + "|constraint", Detail: fmt.Sprintf("%s: second line is %q, want //go:build %s", o, lines[1], tp.constraint)})
			}
		}
		for _, p := range append(append(created, changed...), deleted...) {
			if !outSet[p] && !after[p].Dir && !before[p].Dir {
				ps = append(ps, fshist.Problem{Site: "C15|" + cls + "|other-file-touched", Detail: "successful run touched " + p})
			}
		}
		return ps
	}
	return w, nil
}

type cleanBlocked struct {
	world  string
	v      int
	exit   int
	stderr string
	args   []string
}

func (c *cleanBlocked) Error() string {
	return fmt.Sprintf("world %s: generation of v%d on a clean tree fails (exit %d): %s", c.world, c.v, c.exit, c.stderr)
}

// RunHistories explores all worlds and files problems of property run.Prop.
func RunHistories(run *ev.Run) {
	depth := 4
	if run.Thorough() {
		depth = 6
	}
	bin := drive.GoverterBin()
	base, err := os.MkdirTemp(emit.ScratchRoot(), "verif-hist-")
	if err != nil {
		run.Harness = true
		return
	}
	defer os.RemoveAll(base)
	type job struct {
		l  histLayout
		tp tagPair
	}
	var jobs []job
	for _, l := range histLayouts() {
		for ti, tp := range histTags {
			if !run.Thorough() && ti > 1 && l.name != "same-package" {
				continue
			}
			jobs = append(jobs, job{l, tp})
		}
	}
	var mu sync.Mutex
	var wg sync.WaitGroup
	sem := make(chan bool, nWorkers)
	states, transitions, runs := 0, 0, 0
	for i, j := range jobs {
		wg.Add(1)
		sem <- true
		go func(i int, j job) {
			defer wg.Done()
			defer func() { <-sem }()
			w, err := histWorld(j.l, j.tp, depth, bin)
			if cb, ok := err.(*cleanBlocked); ok {
				mu.Lock()
				if run.Prop == "C16" {
					run.Report(ev.Violation{Site: cb.world + "|clean-generation-blocked", Symptom: "regeneration-blocked",
						Detail: fmt.Sprintf("goverter %v on a clean tree (no output yet; a user file guarded by the output constraint references the not-yet-generated code) fails with exit %d:\n%s", cb.args, cb.exit, firstN(cb.stderr, 800)),
						Case:   map[string]any{"kind": "history", "world": cb.world, "history": []string{"run"}}})
				}
				run.Outcome("world:" + cb.world + "/clean-generation-blocked")
				mu.Unlock()
				return
			}
			if err != nil {
				mu.Lock()
				fmt.Fprintln(os.Stderr, "HARNESS-ERROR:", err)
				run.Harness = true
				mu.Unlock()
				return
			}
			st, err := fshist.Explore(w, filepath.Join(base, fmt.Sprint("w", i)))
			mu.Lock()
			defer mu.Unlock()
			if err != nil {
				fmt.Fprintln(os.Stderr, "HARNESS-ERROR:", err)
				run.Harness = true
				return
			}
			states += st.States
			transitions += st.Transitions
			runs += st.Runs
			run.OutcomeN("world:"+w.Name+"/states", st.States)
			for _, s := range st.Sample {
				run.Sample(map[string]any{"world": w.Name, "history": s})
			}
			seen := map[string]bool{}
			for _, f := range st.Problems {
				parts := strings.SplitN(f.Site, "|", 2)
				if parts[0] != run.Prop {
					continue
				}
				if seen[f.Site] {
					continue
				}
				seen[f.Site] = true
				run.Report(ev.Violation{Site: parts[1], Symptom: strings.SplitN(parts[1], "|", 2)[1],
					Detail: fmt.Sprintf("world %s, history: %s\n%s", w.Name, strings.Join(f.History, " ; "), f.Detail),
					Case:   map[string]any{"kind": "history", "world": w.Name, "history": f.History}})
			}
		}(i, j)
	}
	wg.Wait()
	if run.Prop == "C16" {
		runs += emptyConstraint(run, bin, base)
	}
	run.Cov["worlds"] = len(jobs)
	run.Cov["history_depth"] = depth
	run.Cov["states"] = states
	run.Cov["transitions"] = transitions
	run.Cov["cli_runs"] = runs
	run.Cov["evaluations"] = transitions
	run.Cov["distinct_nontrivial"] = states
	run.Cov["traces_validated_against_impl"] = runs
	run.Cov["exhaustive"] = !run.Harness
	var names []string
	for _, j := range jobs {
		names = append(names, j.l.name+"/"+j.tp.name)
	}
	sort.Strings(names)
	run.Cov["world_names"] = names
	run.Cov["rule"] = "explicit-state breadth-first search over file trees: events {run goverter, edit input to v1/v2 (types renamed)/v3 (failing), corrupt output body below its two header lines, append garbage to output, delete output} up to the history depth, states deduplicated on the canonical tree (paths, modes, content hashes); after every run on a good version: exit 0, outputs byte-equal to generation on a clean tree, header line + //go:build constraint line present, nothing else touched; on the failing version: exit 1 and tree unchanged. Worlds = output layouts (separate package with a constraint-guarded user file, same package as the interface, two converters sharing one file, goverter:variables .gen.go) x (-build-tags, -output-constraint) pairs"
}

// emptyConstraint: with -output-constraint "" the //go:build line is omitted (and only then): for every layout the
// first generation on a clean tree is checked for header, absence of a constraint line, and the tree compiling. The
// recovery guarantee does not apply to this configuration (the outputs are part of the loaded packages).
func emptyConstraint(run *ev.Run, bin, base string) int {
	n := 0
	for _, l := range histLayouts() {
		for _, form := range [][]string{{"-output-constraint", ""}, {"-output-constraint="}} {
			t := fshist.Tree{"go.mod": {Data: []byte("module vx\n\ngo 1.22\n"), Mode: 0o644}}
			t = setVersion(t, l, 1, "!goverter")
			// constraint-guarded user files keep the default constraint: they are excluded while goverter loads
			args := append(append([]string{"gen"}, form...), l.pattern...)
			after, r, err := fshist.RunIn(bin, t, filepath.Join(base, fmt.Sprint("empty-", l.name, len(form))), "", nil, args...)
			n++
			if err != nil {
				fmt.Fprintln(os.Stderr, "HARNESS-ERROR:", err)
				run.Harness = true
				continue
			}
			cls := l.name + "/empty-constraint"
			run.Outcome(fmt.Sprintf("world:%s/exit:%d", cls, r.Exit))
			cs := map[string]any{"kind": "history", "world": cls, "history": []string{"run " + strings.Join(args, " ")}}
			if r.Exit != 0 {
				run.Report(ev.Violation{Site: cls + "|clean-generation-blocked", Symptom: "regeneration-blocked",
					Detail: fmt.Sprintf("goverter %q on a clean tree fails with exit %d:\n%s", args, r.Exit, firstN(r.Stderr, 800)), Case: cs})
				continue
			}
			for _, o := range l.outputs {
				lines := strings.SplitN(string(after[o].Data), "\n", 3)
				switch {
				case len(lines) < 2 || !strings.HasPrefix(lines[0], "// Code generated by") || !strings.HasSuffix(lines[0], "DO NOT EDIT."):
					run.Report(ev.Violation{Site: cls + "|header", Symptom: "header", Detail: o + ": first line is not the generated-code header", Case: cs})
				case strings.HasPrefix(strings.TrimSpace(lines[1]), "//go:build") || strings.HasPrefix(strings.TrimSpace(lines[1]), "// +build"):
					run.Report(ev.Violation{Site: cls + "|constraint", Symptom: "constraint", Detail: fmt.Sprintf("%s: an empty output constraint is configured but the second line is %q", o, lines[1]), Case: cs})
				}
			}
		}
	}
	return n
}
