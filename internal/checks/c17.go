package checks

import (
	"bytes"
	"fmt"
	"os"
	"path"
	"path/filepath"
	"sort"
	"strings"
	"sync"
	"time"

	goverter "github.com/jmattheis/goverter"
	"github.com/jmattheis/goverter/config"

	"verif/internal/drive"
	"verif/internal/emit"
	"verif/internal/ev"
	"verif/internal/fshist"
)

// ---- C17: a failing run changes no files; exit status reflects the outcome ----

// render: everything up to the conversion succeeds, the output file cannot be rendered (raw code that is not Go)
var c17States = []string{"ok", "directive", "signature", "conversion", "late-setting", "render"}

func c17Converter(pkg, name, state string) string {
	doc := "// goverter:converter\n"
	if name == "A2" {
		// a second output directory whose name is a prefix of the default one ("gen" vs "generated")
		doc += "// goverter:output:file ./gen/second.go\n"
	}
	method := "\tConvert(source In) Out\n"
	switch state {
	case "directive":
		doc += "// goverter:nonsense yes\n"
	case "signature":
		method = "\tConvert(source In) (Out, int)\n"
	case "conversion":
		method = "\tConvert(source In) OutX\n"
	case "late-setting":
		method = "\t// goverter:ignore Nope\n\tConvert(source In) Out\n"
	case "render":
		doc += "// goverter:output:raw func broken( {\n"
	}
	return fmt.Sprintf("package %s\n\n%stype %s interface {\n%s}\n", pkg, doc, name, method)
}

const c17Types = "type In struct{ A int }\ntype Out struct{ A int }\ntype OutX struct{ A, Missing int }\n"

type c17Conv struct{ pkg, name, file string }

func c17Layout(n int) []c17Conv {
	all := []c17Conv{{"a", "A1", "a/a1.go"}, {"a", "A2", "a/a2.go"}, {"b", "B1", "b/b1.go"}, {"c", "C1", "c/c1.go"}}
	return all[:n]
}

func c17Tree(convs []c17Conv, states []string) fshist.Tree {
	t := fshist.Tree{}
	t["go.mod"] = fshist.Entry{Data: []byte("module vx\n\ngo 1.22\n"), Mode: 0o644}
	pk := map[string]bool{}
	for i, c := range convs {
		if !pk[c.pkg] {
			pk[c.pkg] = true
			t[c.pkg] = fshist.Entry{Dir: true, Mode: 0o755}
			t[c.pkg+"/types.go"] = fshist.Entry{Data: []byte("package " + c.pkg + "\n\n" + c17Types), Mode: 0o644}
		}
		t[c.file] = fshist.Entry{Data: []byte(c17Converter(c.pkg, c.name, states[i])), Mode: 0o644}
	}
	return t
}

// inMemory generates dir with the in-process entry point (hook H1) and returns relative path → bytes.
func inMemory(dir string, patterns []string) (map[string][]byte, error) {
	var files map[string][]byte
	var err error
	func() {
		defer func() {
			if r := recover(); r != nil {
				err = fmt.Errorf("panic: %v", r)
			}
		}()
		files, err = goverter.VerifGenerateRaw(&goverter.GenerateConfig{PackagePatterns: patterns, WorkingDir: dir, BuildTags: "goverter",
			OutputBuildConstraint: "!goverter", Global: config.RawLines{Location: "command line (-g, -global)"}})
	}()
	if err != nil {
		return nil, err
	}
	out := map[string][]byte{}
	for p, b := range files {
		rel, rerr := filepath.Rel(dir, p)
		if rerr != nil {
			rel = p
		}
		out[filepath.ToSlash(rel)] = b
	}
	return out, nil
}

func RunC17(run *ev.Run) {
	nconv := 3
	if run.Thorough() {
		nconv = 4
	}
	convs := c17Layout(nconv)
	var combos [][]string
	var rec func(cur []string)
	rec = func(cur []string) {
		if len(cur) == nconv {
			combos = append(combos, append([]string{}, cur...))
			return
		}
		for _, s := range c17States {
			rec(append(cur, s))
		}
	}
	rec(nil)
	base, err := os.MkdirTemp(emit.ScratchRoot(), "verif-c17-")
	if err != nil {
		run.Harness = true
		return
	}
	defer os.RemoveAll(base)
	bin := drive.GoverterBin()
	allOK := make([]string, nconv)
	for i := range allOK {
		allOK[i] = "ok"
	}
	// outputs of the all-ok version (used as pre-existing, possibly stale, outputs)
	okTree, okRun, err := fshist.RunIn(bin, c17Tree(convs, allOK), filepath.Join(base, "ok"), "", nil, "gen", "./...")
	if err != nil {
		fmt.Fprintln(os.Stderr, "HARNESS-ERROR: baseline generation failed:", err)
		run.Harness = true
		return
	}
	if okRun.Exit != 0 {
		// every converter is fine: the run must succeed, writing all output files and creating directories as needed
		created, changed, _ := fshist.Diff(c17Tree(convs, allOK), okTree)
		run.Outcome(fmt.Sprintf("faults:any=false/exit:%d", okRun.Exit))
		run.Outcome("baseline-failed")
		run.Report(ev.Violation{Site: "faults:none/pre:clean", Symptom: fmt.Sprintf("exit-%d-on-success", okRun.Exit),
			Detail: fmt.Sprintf("all %d converters are valid but goverter gen ./... exits %d (files touched: %v %v)\n%s", nconv, okRun.Exit, created, changed, firstN(okRun.Stderr, 800)),
			Case:   map[string]any{"kind": "c17-fault-subset", "states": allOK, "pre": "clean"}})
		run.Cov["states"], run.Cov["transitions"], run.Cov["evaluations"], run.Cov["distinct_nontrivial"] = 1, 1, 1, 2
		run.Cov["traces_validated_against_impl"] = 1
		run.Cov["rule"] = "baseline run of the all-valid input failed; nothing else was explored"
		run.Sample(map[string]any{"states": allOK, "pre": "clean", "exit": okRun.Exit})
		return
	}
	os.RemoveAll(filepath.Join(base, "ok"))
	var mu sync.Mutex
	var wg sync.WaitGroup
	sem := make(chan bool, nWorkers)
	states, transitions := 0, 0
	idx := 0
	for _, combo := range combos {
		for _, pre := range []string{"clean", "outputs-present", "outputs-corrupted"} {
			idx++
			wg.Add(1)
			sem <- true
			go func(combo []string, pre string, idx int) {
				defer wg.Done()
				defer func() { <-sem }()
				t := c17Tree(convs, combo)
				if pre != "clean" {
					for p, e := range okTree {
						if strings.Contains(p, "generated") {
							if pre == "outputs-corrupted" && !e.Dir {
								e.Data = append(append([]byte{}, e.Data...), []byte("\nthis is garbage {{{\n")...)
							}
							t[p] = e
						}
					}
				}
				scratch := filepath.Join(base, fmt.Sprintf("r%d", idx))
				after, r, err := fshist.RunIn(bin, t, scratch, "", nil, "gen", "./...")
				if err != nil {
					mu.Lock()
					run.Harness = true
					mu.Unlock()
					return
				}
				anyFault := false
				for _, s := range combo {
					if s != "ok" {
						anyFault = true
					}
				}
				desc := map[string]any{"kind": "c17-fault-subset", "converters": fmt.Sprint(convs), "states": combo, "pre": pre}
				site := "faults:" + faultClass(combo) + "/pre:" + pre
				var probs []ev.Violation
				created, changed, deleted := fshist.Diff(t, after)
				if anyFault {
					if r.Exit != 1 {
						probs = append(probs, ev.Violation{Site: site, Symptom: fmt.Sprintf("exit-%d-on-failure", r.Exit), Detail: fmt.Sprintf("states %v: exit %d, stderr:\n%s", combo, r.Exit, firstN(r.Stderr, 800)), Case: desc})
					}
					if strings.TrimSpace(r.Stderr) == "" {
						probs = append(probs, ev.Violation{Site: site, Symptom: "no-diagnostic-on-stderr", Detail: fmt.Sprintf("states %v", combo), Case: desc})
					}
					if len(created)+len(changed)+len(deleted) > 0 {
						probs = append(probs, ev.Violation{Site: site, Symptom: "failing-run-changed-files", Detail: fmt.Sprintf("states %v: created %v changed %v deleted %v", combo, created, changed, deleted), Case: desc})
					}
				} else {
					if r.Exit != 0 {
						probs = append(probs, ev.Violation{Site: site, Symptom: fmt.Sprintf("exit-%d-on-success", r.Exit), Detail: firstN(r.Stderr, 800), Case: desc})
					} else {
						// every predicted file complete: byte-equal to the in-memory result of the same input
						if err := t.Write(scratch + "-mem"); err == nil {
							mem, merr := inMemory(scratch+"-mem", []string{"./..."})
							os.RemoveAll(scratch + "-mem")
							if merr != nil {
								probs = append(probs, ev.Violation{Site: site, Symptom: "in-memory-generation-disagrees", Detail: merr.Error(), Case: desc})
							}
							for p, b := range mem {
								if e, ok := after[p]; !ok || !bytes.Equal(e.Data, b) {
									probs = append(probs, ev.Violation{Site: site, Symptom: "output-file-incomplete", Detail: fmt.Sprintf("%s on disk differs from the in-memory result (%d vs %d bytes)", p, len(after[p].Data), len(b)), Case: desc})
								}
							}
							for _, p := range append(created, changed...) {
								if _, ok := mem[p]; !ok && !after[p].Dir {
									probs = append(probs, ev.Violation{Site: site, Symptom: "unexpected-file-written", Detail: p, Case: desc})
								}
							}
						}
					}
				}
				mu.Lock()
				states++
				transitions++
				run.Outcome(fmt.Sprintf("faults:any=%v/exit:%d", anyFault, r.Exit))
				for _, p := range probs {
					run.Report(p)
				}
				if idx%97 == 0 {
					run.Sample(map[string]any{"states": combo, "pre": pre, "exit": r.Exit, "changed": len(created) + len(changed)})
				}
				mu.Unlock()
			}(combo, pre, idx)
		}
	}
	wg.Wait()
	// (i-b) three converters of one package sharing ONE output file: a fault of any of them (first, middle or last in
	// name order) fails the whole run
	ns := c17SharedFile(run, base, bin)
	states += ns
	transitions += ns
	// (ii) argv
	na, nv := c17Argv(run, base)
	// (iii) output locations taken by something else: success may not be claimed
	nb := RunBlockedOutputs(run)
	na += nb
	run.Cov["fault_subset_runs"] = states
	run.Cov["argv_runs"] = na
	run.Cov["argv_generate_runs"] = nv
	run.Cov["states"] = states + na
	run.Cov["transitions"] = transitions + na
	run.Cov["evaluations"] = states + na
	run.Cov["distinct_nontrivial"] = states + na
	run.Cov["traces_validated_against_impl"] = states + na
	run.Cov["exhaustive"] = !run.Harness
	run.Cov["converters"] = nconv
	run.Cov["rule"] = fmt.Sprintf("(i) %d converters over 2-3 packages, each in one of the states %v (every subset faulty, at directive, signature, conversion, late-setting and rendering stage) x pre-existing outputs {none, present, present and corrupted}: real CLI run; a faulty run must exit 1 with a diagnostic on stderr and leave the tree byte-identical, a good run must exit 0 and every output file must equal the in-memory result; (ii) every argv of length <=k over the token menu against an independent model of the flag grammar: help => exit 0, usage error => exit 1 with text, neither may touch the tree; generate => exit 0 or 1, never a crash, and exit 1 leaves the tree unchanged; (iii) output locations taken by something else (file path is a directory, directory path is a file, output:file names an existing directory; alone and next to an unobstructed package in both pattern orders): exit 0 only if the converter's file was really written; (i-b) three converters sharing one output file, every state combination", nconv, c17States)
}

func faultClass(combo []string) string {
	set := map[string]bool{}
	pos := []string{}
	for i, s := range combo {
		if s != "ok" {
			set[s] = true
			pos = append(pos, fmt.Sprint(i))
		}
	}
	var k []string
	for s := range set {
		k = append(k, s)
	}
	sort.Strings(k)
	return strings.Join(k, "+") + "@" + strings.Join(pos, ",")
}

// ---- argv model ----

var argvTokens = []string{"gen", "help", "version", "-h", "--help", "-g", "ignoreMissing", "-global", "-build-tags", "-output-constraint", "-cwd", ".", "./...", "./nope", "sub", "-u", "--", "-g=skipCopySameType", "-cwd=sub", "-"}

// modelArgv is an independent restatement of the CLI grammar: what kind of run is argv?
func modelArgv(args []string) string {
	i := 0
	// top level: no flags are defined
	for i < len(args) {
		a := args[i]
		if a == "--" {
			i++
			break
		}
		if len(a) < 2 || a[0] != '-' {
			break
		}
		name := strings.TrimPrefix(strings.TrimPrefix(a, "-"), "-")
		if strings.HasPrefix(a, "---") || name == "" || name[0] == '-' || name[0] == '=' {
			return "usage"
		}
		if j := strings.Index(name, "="); j >= 0 {
			name = name[:j]
		}
		if name == "h" || name == "help" {
			return "help"
		}
		return "usage"
	}
	if i >= len(args) {
		return "usage"
	}
	switch args[i] {
	case "version":
		return "version"
	case "help":
		return "help"
	case "gen":
	default:
		return "usage"
	}
	i++
	valued := map[string]bool{"g": true, "global": true, "build-tags": true, "output-constraint": true, "cwd": true}
	for i < len(args) {
		a := args[i]
		if a == "--" {
			i++
			break
		}
		if len(a) < 2 || a[0] != '-' {
			break
		}
		name := strings.TrimPrefix(strings.TrimPrefix(a, "-"), "-")
		if strings.HasPrefix(a, "---") || name == "" || name[0] == '-' || name[0] == '=' {
			return "usage"
		}
		hasVal := false
		if j := strings.Index(name, "="); j >= 0 {
			name, hasVal = name[:j], true
		}
		if !valued[name] {
			if name == "h" || name == "help" {
				return "help"
			}
			return "usage"
		}
		i++
		if !hasVal {
			if i >= len(args) {
				return "usage"
			}
			i++
		}
	}
	if i >= len(args) {
		return "usage"
	}
	return "generate"
}

func c17Argv(run *ev.Run, base string) (int, int) {
	k := 3
	toks := argvTokens
	var argvs [][]string
	argvs = append(argvs, []string{})
	level := [][]string{{}}
	for d := 0; d < k; d++ {
		var next [][]string
		for _, p := range level {
			for _, t := range toks {
				next = append(next, append(append([]string{}, p...), t))
			}
		}
		argvs = append(argvs, next...)
		level = next
	}
	if run.Thorough() {
		// length 4 over a reduced menu
		small := []string{"gen", "-g", "ignoreMissing", "-cwd", "sub", ".", "./...", "-h", "--", "help"}
		for _, a := range small {
			for _, b := range small {
				for _, c := range small {
					for _, d := range small {
						argvs = append(argvs, []string{a, b, c, d})
					}
				}
			}
		}
	}
	t := fshist.Tree{}
	t["go.mod"] = fshist.Entry{Data: []byte("module vx\n\ngo 1.22\n"), Mode: 0o644}
	t["root.go"] = fshist.Entry{Data: []byte("package vx\n\n" + c17Types + "\n// goverter:converter\ntype R interface {\n\tConvert(source In) Out\n}\n"), Mode: 0o644}
	t["sub"] = fshist.Entry{Dir: true, Mode: 0o755}
	t["sub/sub.go"] = fshist.Entry{Data: []byte("package sub\n\n" + c17Types + "\n// goverter:converter\ntype S interface {\n\tConvert(source In) Out\n}\n"), Mode: 0o644}
	bin := drive.GoverterBin()
	var mu sync.Mutex
	var wg sync.WaitGroup
	sem := make(chan bool, nWorkers)
	ngen := 0
	for i, argv := range argvs {
		wg.Add(1)
		sem <- true
		go func(i int, argv []string) {
			defer wg.Done()
			defer func() { <-sem }()
			kind := modelArgv(argv)
			scratch := filepath.Join(base, fmt.Sprintf("a%d", i))
			after, r, err := fshist.RunIn(bin, t, scratch, "", nil, argv...)
			os.RemoveAll(scratch)
			if err != nil {
				mu.Lock()
				run.Harness = true
				mu.Unlock()
				return
			}
			created, changed, deleted := fshist.Diff(t, after)
			touched := len(created)+len(changed)+len(deleted) > 0
			desc := map[string]any{"kind": "c17-argv", "argv": argv, "model": kind}
			site := "argv:" + kind + ":" + argvClass(argv)
			var probs []ev.Violation
			add := func(sym, detail string) {
				probs = append(probs, ev.Violation{Site: site, Symptom: sym, Detail: fmt.Sprintf("goverter %q (model: %s): %s\nexit=%d stderr=%s", argv, kind, detail, r.Exit, firstN(r.Stderr, 300)), Case: desc})
			}
			switch kind {
			case "help", "version":
				if r.Exit != 0 {
					add("help-exit-nonzero", "help/version must exit 0")
				}
				if touched {
					add("help-touched-files", fmt.Sprint(created, changed, deleted))
				}
				if kind == "help" && strings.TrimSpace(r.Stdout+r.Stderr) == "" {
					add("help-prints-nothing", "")
				}
			case "usage":
				if r.Exit != 1 {
					add("usage-error-exit-not-1", "usage errors must exit 1")
				}
				if touched {
					add("usage-error-touched-files", fmt.Sprint(created, changed, deleted))
				}
				if strings.TrimSpace(r.Stderr) == "" {
					add("usage-error-without-text", "")
				}
			case "generate":
				if r.Exit != 0 && r.Exit != 1 {
					add("generate-crashed", "exit status must be 0 or 1")
				}
				if r.Exit == 1 && touched {
					add("failing-run-changed-files", fmt.Sprint(created, changed, deleted))
				}
				if r.Exit == 1 && strings.TrimSpace(r.Stderr) == "" {
					add("no-diagnostic-on-stderr", "")
				}
				if r.Exit == 0 && !touched {
					add("success-without-output", "exit 0 but no file was written")
				}
			}
			mu.Lock()
			if kind == "generate" {
				ngen++
			}
			run.Outcome(fmt.Sprintf("argv:%s/exit:%d", kind, r.Exit))
			for _, p := range probs {
				run.Report(p)
			}
			if i%911 == 0 {
				run.Sample(map[string]any{"argv": argv, "model": kind, "exit": r.Exit})
			}
			mu.Unlock()
		}(i, argv)
	}
	wg.Wait()
	return len(argvs), ngen
}

func argvClass(argv []string) string {
	var c []string
	for _, a := range argv {
		switch {
		case strings.HasPrefix(a, "-"):
			c = append(c, a)
		case a == "gen" || a == "help" || a == "version":
			c = append(c, a)
		default:
			c = append(c, "x")
		}
	}
	return strings.Join(c, " ")
}

// ---- blocked output locations: the place a converter must be written to is taken by something else ----
//
// C17: "on success every output file is written completely" - so a run that cannot write an output must not exit 0.
// C13: such a run must terminate with a diagnostic (no hang, no panic).

type blockedCase struct {
	name  string
	lines string              // converter-level output settings of the blocked converter
	block func(t fshist.Tree) // puts the obstacle into the tree
	want  string              // module-relative path the blocked converter would be written to
}

func blockedCases() []blockedCase {
	dir := func(p string) func(fshist.Tree) {
		return func(t fshist.Tree) {
			d := p
			for d != "." && d != "" {
				t[d] = fshist.Entry{Dir: true, Mode: 0o755}
				d = path.Dir(d)
			}
			t[path.Join(p, "keep.txt")] = fshist.Entry{Data: []byte("x\n"), Mode: 0o644}
		}
	}
	file := func(p string) func(fshist.Tree) {
		return func(t fshist.Tree) { t[p] = fshist.Entry{Data: []byte("not a directory\n"), Mode: 0o644} }
	}
	return []blockedCase{
		{"default-file-path-is-a-directory", "", dir("conv/generated/generated.go"), "conv/generated/generated.go"},
		{"default-directory-path-is-a-file", "", file("conv/generated"), "conv/generated/generated.go"},
		{"output-file-names-an-existing-directory", "// goverter:output:file ./outdir\n// goverter:output:package vx/conv/outdir\n", dir("conv/outdir"), "conv/outdir"},
		{"output-file-path-is-a-directory", "// goverter:output:file ./gen/x.go\n", dir("conv/gen/x.go"), "conv/gen/x.go"},
		{"output-directory-path-is-a-file", "// goverter:output:file ./gen/x.go\n", file("conv/gen"), "conv/gen/x.go"},
		{"output-parent-of-directory-is-a-file", "// goverter:output:file ./a/b/x.go\n", file("conv/a"), "conv/a/b/x.go"},
		{"same-directory-output-is-a-directory", "// goverter:output:file ./conv_gen.go\n// goverter:output:package vx/conv\n", dir("conv/conv_gen.go"), "conv/conv_gen.go"},
	}
}

// RunBlockedOutputs runs every blocked case alone and next to a second, unobstructed package (both pattern orders).
func RunBlockedOutputs(run *ev.Run) int {
	base, err := os.MkdirTemp(emit.ScratchRoot(), "verif-blocked-")
	if err != nil {
		run.Harness = true
		return 0
	}
	defer os.RemoveAll(base)
	bin := drive.GoverterBin()
	types := "type In struct{ A int }\ntype Out struct{ A int }\n"
	n := 0
	var mu sync.Mutex
	var wg sync.WaitGroup
	sem := make(chan bool, nWorkers)
	for ci, c := range blockedCases() {
		for vi, pats := range [][]string{{"./conv"}, {"./conv", "./other"}, {"./other", "./conv"}} {
			ci, c, vi, pats := ci, c, vi, pats
			wg.Add(1)
			sem <- true
			go func() {
				defer wg.Done()
				defer func() { <-sem }()
				t := fshist.Tree{"go.mod": {Data: []byte("module vx\n\ngo 1.22\n"), Mode: 0o644}, "conv": {Dir: true, Mode: 0o755}, "other": {Dir: true, Mode: 0o755}}
				t["conv/conv.go"] = fshist.Entry{Data: []byte("package conv\n\n" + types + "\n// goverter:converter\n" + c.lines + "type C interface {\n\tConvert(source In) Out\n}\n"), Mode: 0o644}
				t["other/other.go"] = fshist.Entry{Data: []byte("package other\n\n" + types + "\n// goverter:converter\ntype O interface {\n\tConvert(source In) Out\n}\n"), Mode: 0o644}
				c.block(t)
				dir := filepath.Join(base, fmt.Sprintf("b%d-%d", ci, vi))
				start := time.Now()
				after, r, err := fshist.RunInTimeout(bin, t, dir, "", nil, 90*time.Second, append([]string{"gen"}, pats...)...)
				mu.Lock()
				defer mu.Unlock()
				n++
				if err != nil {
					fmt.Fprintln(os.Stderr, "HARNESS-ERROR:", err)
					run.Harness = true
					return
				}
				site := "blocked-output:" + c.name
				cs := map[string]any{"kind": "blocked-output", "case": c.name, "patterns": pats}
				run.Outcome(fmt.Sprintf("blocked:%s/exit:%d", map[bool]string{true: "timeout", false: "terminated"}[r.Timeout], r.Exit))
				switch {
				case r.Timeout:
					if run.Prop == "C13" {
						run.Report(ev.Violation{Site: site + "|hang", Symptom: "hang", Detail: fmt.Sprintf("goverter gen %v did not terminate within %v although only the output location %s is taken by something else", pats, time.Since(start).Round(time.Second), c.want), Case: cs})
					}
				case strings.Contains(r.Stderr, "panic:") || strings.Contains(r.Stderr, "goroutine "):
					if run.Prop == "C13" {
						run.Report(ev.Violation{Site: site + "|panic", Symptom: "panic", Detail: firstN(r.Stderr, 1500), Case: cs})
					}
				case r.Exit == 0:
					// success claimed: the blocked converter's file must exist as a regular file with generated content
					e, ok := after[c.want]
					if run.Prop == "C17" && (!ok || e.Dir || !bytes.HasPrefix(e.Data, []byte("// Code generated by"))) {
						run.Report(ev.Violation{Site: site + "|exit", Symptom: "success-without-output",
							Detail: fmt.Sprintf("goverter gen %v exits 0 although %s could not be written (the location is taken by a %s)\nstderr: %q", pats, c.want, map[bool]string{true: "directory", false: "file or missing parent"}[e.Dir], firstN(r.Stderr, 400)), Case: cs})
					}
				default:
					if run.Prop == "C13" && strings.TrimSpace(r.Stderr+r.Stdout) == "" {
						run.Report(ev.Violation{Site: site + "|empty-diagnostic", Symptom: "empty-diagnostic", Detail: fmt.Sprintf("goverter gen %v exits %d without any diagnostic", pats, r.Exit), Case: cs})
					}
				}
			}()
		}
	}
	wg.Wait()
	run.Cov["blocked_output_runs"] = n
	return n
}

// c17SharedFile: converters Aa, Mm, Zz of package s all write s/generated/generated.go.
func c17SharedFile(run *ev.Run, base, bin string) int {
	convs := []c17Conv{{"s", "Aa", "s/aa.go"}, {"s", "Mm", "s/mm.go"}, {"s", "Zz", "s/zz.go"}}
	var combos [][]string
	var rec func(cur []string)
	rec = func(cur []string) {
		if len(cur) == len(convs) {
			combos = append(combos, append([]string{}, cur...))
			return
		}
		for _, st := range c17States {
			rec(append(cur, st))
		}
	}
	rec(nil)
	okTree, okRun, err := fshist.RunIn(bin, c17Tree(convs, []string{"ok", "ok", "ok"}), filepath.Join(base, "shared-ok"), "", nil, "gen", "./...")
	if err != nil || okRun.Exit != 0 {
		fmt.Fprintln(os.Stderr, "HARNESS-ERROR: shared-file baseline failed")
		run.Harness = true
		return 0
	}
	var mu sync.Mutex
	var wg sync.WaitGroup
	sem := make(chan bool, nWorkers)
	n := 0
	for ci, combo := range combos {
		for _, pre := range []string{"clean", "outputs-present"} {
			ci, combo, pre := ci, combo, pre
			wg.Add(1)
			sem <- true
			go func() {
				defer wg.Done()
				defer func() { <-sem }()
				t := c17Tree(convs, combo)
				if pre != "clean" {
					for p, e := range okTree {
						if strings.Contains(p, "generated") {
							t[p] = e
						}
					}
				}
				after, r, err := fshist.RunIn(bin, t, filepath.Join(base, fmt.Sprintf("sh%d-%s", ci, pre)), "", nil, "gen", "./...")
				mu.Lock()
				defer mu.Unlock()
				if err != nil {
					run.Harness = true
					return
				}
				n++
				anyFault := false
				for _, st := range combo {
					anyFault = anyFault || st != "ok"
				}
				run.Outcome(fmt.Sprintf("shared-file:any=%v/exit:%d", anyFault, r.Exit))
				desc := map[string]any{"kind": "c17-shared-file", "states": combo, "pre": pre}
				site := "shared-file:" + faultClass(combo) + "/pre:" + pre
				created, changed, deleted := fshist.Diff(t, after)
				switch {
				case anyFault && r.Exit != 1:
					run.Report(ev.Violation{Site: site, Symptom: fmt.Sprintf("exit-%d-on-failure", r.Exit), Detail: fmt.Sprintf("converters Aa, Mm, Zz share s/generated/generated.go, states %v: exit %d, stderr:\n%s", combo, r.Exit, firstN(r.Stderr, 600)), Case: desc})
				case anyFault && strings.TrimSpace(r.Stderr) == "":
					run.Report(ev.Violation{Site: site, Symptom: "no-diagnostic-on-stderr", Detail: fmt.Sprint(combo), Case: desc})
				case anyFault && len(created)+len(changed)+len(deleted) > 0:
					run.Report(ev.Violation{Site: site, Symptom: "failing-run-changed-files", Detail: fmt.Sprintf("states %v: created %v changed %v deleted %v", combo, created, changed, deleted), Case: desc})
				case !anyFault && r.Exit != 0:
					run.Report(ev.Violation{Site: site, Symptom: fmt.Sprintf("exit-%d-on-success", r.Exit), Detail: firstN(r.Stderr, 600), Case: desc})
				}
			}()
		}
	}
	wg.Wait()
	run.Cov["shared_file_runs"] = n
	return n
}
