package checks

import (
	"fmt"
	"go/ast"
	"go/parser"
	"go/token"
	"sort"
	"strconv"
	"strings"

	"verif/internal/ev"
)

// checkGeneratedFile is the C18 oracle for one emitted file of a batch: no reflect/unsafe, no blank or dot
// imports, import set equal to the model's set, only the converter struct types (without fields), functions
// and one init() at top level.
func checkGeneratedFile(name string, content []byte, b *Batch) []ev.Violation {
	var out []ev.Violation
	add := func(site, symptom, detail string) {
		out = append(out, ev.Violation{Property: "C18", Site: site, Symptom: symptom, Detail: name + ": " + detail,
			Case: map[string]any{"kind": "generated-file", "file": name, "cases": len(b.Cases)}})
	}
	fset := token.NewFileSet()
	f, err := parser.ParseFile(fset, name, content, parser.ParseComments)
	if err != nil {
		out = append(out, ev.Violation{Property: "C01", Site: "parse", Symptom: "emitted-file-does-not-parse", Detail: name + ": " + err.Error()})
		return out
	}
	want := map[string]bool{}
	optional := map[string]bool{}
	usesUnsafe := false
	raw := false
	tracked := false
	for _, c := range b.Cases {
		if of, ok := c.Meta["out_file"].(string); ok && of != name {
			continue
		}
		if _, ok := c.Meta["need_pkgs"]; ok {
			tracked = true
		}
		for _, p := range metaStrings(c.Meta["optional_pkgs"]) {
			optional[p] = true
		}
		for _, p := range metaStrings(c.Meta["need_pkgs"]) {
			if p == "unsafe" {
				usesUnsafe = true
			}
			want[p] = true
		}
		if c.Meta["output_raw"] != nil {
			raw = true
		}
	}
	got := map[string]bool{}
	for _, im := range f.Imports {
		p, _ := strconv.Unquote(im.Path.Value)
		got[p] = true
		if im.Name != nil && (im.Name.Name == "_" || im.Name.Name == ".") {
			add("import:"+im.Name.Name, "blank-or-dot-import", fmt.Sprintf("import %s %q", im.Name.Name, p))
		}
		if p == "reflect" || (p == "unsafe" && !usesUnsafe) {
			add("import:"+p, "forbidden-import", fmt.Sprintf("imports %q", p))
		}
	}
	if tracked {
		var extra, missing []string
		for p := range got {
			if !want[p] && !optional[p] {
				extra = append(extra, p)
			}
		}
		for p := range want {
			if !got[p] {
				missing = append(missing, p)
			}
		}
		sort.Strings(extra)
		sort.Strings(missing)
		if len(extra) > 0 {
			add("imports-extra:"+strings.Join(extra, ","), "unwarranted-import", fmt.Sprintf("imports %v are not needed by any conversion of the file (model set %v)", extra, keysOf(want)))
		}
		if len(missing) > 0 {
			add("imports-missing:"+strings.Join(missing, ","), "missing-import", fmt.Sprintf("model expects imports %v", missing))
		}
	}
	nInit := 0
	for _, d := range f.Decls {
		switch d := d.(type) {
		case *ast.GenDecl:
			switch d.Tok {
			case token.IMPORT:
			case token.TYPE:
				for _, sp := range d.Specs {
					ts := sp.(*ast.TypeSpec)
					st, ok := ts.Type.(*ast.StructType)
					if raw {
						continue
					}
					if !ok {
						add("decl:type-non-struct", "unexpected-declaration", "type "+ts.Name.Name+" is not a struct")
					} else if st.Fields != nil && len(st.Fields.List) > 0 {
						add("decl:struct-with-fields", "converter-struct-has-state", "type "+ts.Name.Name+" has fields")
					}
				}
			default:
				if !raw {
					add("decl:"+d.Tok.String(), "package-level-state", "package-level "+d.Tok.String()+" declaration emitted")
				}
			}
		case *ast.FuncDecl:
			if d.Name.Name == "init" && d.Recv == nil {
				nInit++
				for _, st := range d.Body.List {
					as, ok := st.(*ast.AssignStmt)
					if !ok || as.Tok != token.ASSIGN {
						add("init:non-assign", "init-does-more-than-assign", "init contains a non-assignment statement")
					}
				}
			}
		}
	}
	_ = nInit // several goverter:variables blocks sharing one output file legitimately yield several init functions
	out = append(out, deadHelpers(name, f, b)...)
	return out
}

func metaStrings(v any) []string {
	switch x := v.(type) {
	case []string:
		return x
	case []any:
		var out []string
		for _, e := range x {
			out = append(out, fmt.Sprint(e))
		}
		return out
	}
	return nil
}

func keysOf(m map[string]bool) []string {
	var k []string
	for x := range m {
		k = append(k, x)
	}
	sort.Strings(k)
	return k
}

// deadHelpers: every emitted function or method must be reachable from the declared API (the interface methods of
// the converter structs, the declared functions of output:format function, the functions assigned in init()). A
// helper nobody calls is state-free but is no longer "what was declared", and it can keep imports alive.
func deadHelpers(name string, f *ast.File, b *Batch) []ev.Violation {
	type key struct{ recv, name string }
	api := map[key]bool{}
	tracked := false
	for _, c := range b.Cases {
		if of, ok := c.Meta["out_file"].(string); ok && of != name {
			continue
		}
		ms := metaStrings(c.Meta["api_methods"])
		if len(ms) == 0 {
			continue
		}
		tracked = true
		if c.Meta["output_raw"] != nil {
			return nil // user-written functions may legitimately be unreachable
		}
		impl := c.ID + "Impl"
		if n, ok := c.Meta["impl_name"].(string); ok && n != "" {
			impl = n // goverter:name
		}
		for _, m := range ms {
			api[key{impl, m}] = true // struct format
			api[key{"", m}] = true   // function format
		}
	}
	if !tracked {
		return nil
	}
	decls := map[key][]*ast.FuncDecl{} // several init() functions may share a file (one per variables block)
	for _, d := range f.Decls {
		fd, ok := d.(*ast.FuncDecl)
		if !ok {
			continue
		}
		k := key{"", fd.Name.Name}
		if fd.Recv != nil && len(fd.Recv.List) == 1 {
			t := fd.Recv.List[0].Type
			if st, ok := t.(*ast.StarExpr); ok {
				t = st.X
			}
			if id, ok := t.(*ast.Ident); ok {
				k.recv = id.Name
			}
		}
		decls[k] = append(decls[k], fd)
	}
	reach := map[key]bool{}
	var visit func(k key)
	visit = func(k key) {
		if reach[k] {
			return
		}
		fds, ok := decls[k]
		if !ok {
			return
		}
		reach[k] = true
		for _, fd := range fds {
			ast.Inspect(fd, func(n ast.Node) bool {
				call, ok := n.(*ast.CallExpr)
				if !ok {
					return true
				}
				switch fn := call.Fun.(type) {
				case *ast.Ident:
					visit(key{"", fn.Name})
				case *ast.SelectorExpr:
					if id, ok := fn.X.(*ast.Ident); ok && id.Name == "c" {
						visit(key{k.recv, fn.Sel.Name})
					}
				}
				return true
			})
		}
	}
	for k := range decls {
		if api[k] || k.name == "init" {
			visit(k)
		}
	}
	// function literals assigned in init (goverter:variables) call package-level helpers: covered by visiting init
	var out []ev.Violation
	for k := range decls {
		if !reach[k] {
			who := k.name
			if k.recv != "" {
				who = k.recv + "." + k.name
			}
			out = append(out, ev.Violation{Property: "C18", Site: "dead-helper", Symptom: "emitted-function-never-used",
				Detail: fmt.Sprintf("%s: %s is emitted but not reachable from any declared converter method/function", name, who),
				Case:   map[string]any{"kind": "generated-file", "file": name, "function": who}})
			break
		}
	}
	return out
}
