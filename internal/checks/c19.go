package checks

import (
	"fmt"
	"sort"
	"strings"

	"github.com/jmattheis/goverter/comments"
	"github.com/jmattheis/goverter/config"

	"verif/internal/drive"
	"verif/internal/emit"
	"verif/internal/ev"
)

// ---- C19: exactly the goverter: lines of attached doc comments are settings, in order ----

// A comment form renders logical lines (already including the "goverter:" prefix where meant) as Go comment text.
// expect returns which of the logical lines are settings by the documented rule (trimmed text starts with "goverter:").
type commentForm struct {
	name   string
	render func(lines []string, indent string) string
	// visible(i, line): the text of logical line i as goverter sees it after comment markers are removed
	seen func(line string) string
}

func c19Forms() []commentForm {
	perLine := func(prefix string) func([]string, string) string {
		return func(lines []string, indent string) string {
			var b strings.Builder
			for _, l := range lines {
				b.WriteString(indent + prefix + l + "\n")
			}
			return b.String()
		}
	}
	id := func(l string) string { return l }
	return []commentForm{
		{"line-space", perLine("// "), id},
		{"line-nospace", perLine("//"), id},
		{"line-tab", perLine("//\t"), id},
		{"line-3spaces", perLine("//   "), id},
		{"block-multi", func(lines []string, indent string) string {
			return indent + "/* " + strings.Join(lines, "\n"+indent) + " */\n"
		}, id},
		{"block-multi-newline", func(lines []string, indent string) string {
			return indent + "/*\n" + indent + strings.Join(lines, "\n"+indent) + "\n" + indent + "*/\n"
		}, id},
		{"block-stars", func(lines []string, indent string) string {
			return indent + "/*\n" + indent + " * " + strings.Join(lines, "\n"+indent+" * ") + "\n" + indent + " */\n"
		}, func(l string) string { return "* " + l }},
		{"block-per-line", func(lines []string, indent string) string {
			var b strings.Builder
			for _, l := range lines {
				b.WriteString(indent + "/* " + l + " */\n")
			}
			return b.String()
		}, id},
		// one comment group mixing the directive style (//goverter:) and the spaced style line by line, both ways
		{"line-mixed-directive-first", func(lines []string, indent string) string {
			var b strings.Builder
			for i, l := range lines {
				b.WriteString(indent + []string{"//", "// "}[i%2] + l + "\n")
			}
			return b.String()
		}, id},
		{"line-mixed-spaced-first", func(lines []string, indent string) string {
			var b strings.Builder
			for i, l := range lines {
				b.WriteString(indent + []string{"// ", "//", "//\t"}[i%3] + l + "\n")
			}
			return b.String()
		}, id},
		{"line-trailing-ws", func(lines []string, indent string) string {
			var b strings.Builder
			for _, l := range lines {
				b.WriteString(indent + "// " + l + " \t\n")
			}
			return b.String()
		}, id},
	}
}

// settingsOf applies the documented rule to the lines as seen.
func settingsOf(form commentForm, lines []string) []string {
	var out []string
	for _, l := range lines {
		t := strings.TrimSpace(form.seen(l))
		if strings.HasPrefix(t, "goverter:") {
			out = append(out, strings.TrimPrefix(t, "goverter:"))
		}
	}
	return out
}

func containsMarker(form commentForm, lines []string, marker string) bool {
	for _, l := range lines {
		if strings.Contains(form.seen(l), marker) {
			return true
		}
	}
	return false
}

type c19Case struct {
	Name      string // declaration name
	Src       string // source text of the declaration(s)
	Converter bool   // expected: a raw converter exists for Name
	Variables bool
	ConvLines []string
	Methods   map[string][]string
	Desc      string
	Error     bool // expected: ParseDocs fails for this package
	// File: the declaration lives in its own file of the package; Header is that file's comment before the package clause
	File, Header string
}

// line sets used in doc comments (marker + settings + prose)
var c19LineSets = [][]string{
	{"goverter:converter"},
	{"goverter:converter", "goverter:ignoreMissing yes", "goverter:ignoreMissing no"},
	{"goverter:converter", "goverter:ignoreMissing no", "goverter:ignoreMissing yes"},
	{"Some prose about the type.", "goverter:converter", "not a setting: goverter:ignoreMissing", "goverter:skipCopySameType"},
	{"see goverter:converter for details", "goverter:matchIgnoreCase"},
	{"goverter:converter", "", "goverter:name   Custom"},
}

func c19Cases() (ok []c19Case, errs []c19Case) {
	n := 0
	name := func() string { n++; return fmt.Sprintf("L%04d", n) }
	forms := c19Forms()
	body := "interface {\n\tConvert(source int) int\n}"
	for _, form := range forms {
		for li, lines := range c19LineSets {
			isConv := containsMarker(form, lines, "goverter:converter")
			set := settingsOf(form, lines)
			// P1: doc of an unparenthesised type declaration
			nm := name()
			ok = append(ok, c19Case{Name: nm, Src: form.render(lines, "") + "type " + nm + " " + body + "\n", Converter: isConv, ConvLines: set,
				Desc: fmt.Sprintf("form=%s lines=%d pos=gendecl-doc", form.name, li)})
			// P2: doc of the single spec inside parentheses
			nm = name()
			ok = append(ok, c19Case{Name: nm, Src: "type (\n" + form.render(lines, "\t") + "\t" + nm + " " + body + "\n)\n", Converter: isConv, ConvLines: set,
				Desc: fmt.Sprintf("form=%s lines=%d pos=spec-doc-single", form.name, li)})
			// P3: doc of the parenthesised declaration with one spec
			nm = name()
			ok = append(ok, c19Case{Name: nm, Src: form.render(lines, "") + "type (\n\t" + nm + " " + body + "\n)\n", Converter: isConv, ConvLines: set,
				Desc: fmt.Sprintf("form=%s lines=%d pos=gendecl-doc-parens", form.name, li)})
			// P4: doc of one spec in a group of two (the other one is an ordinary type)
			nm = name()
			ok = append(ok, c19Case{Name: nm, Src: "type (\n\tOther" + nm + " struct{}\n\n" + form.render(lines, "\t") + "\t" + nm + " " + body + "\n)\n", Converter: isConv, ConvLines: set,
				Desc: fmt.Sprintf("form=%s lines=%d pos=spec-doc-in-group", form.name, li)})
			// P5: detached by a blank line
			nm = name()
			ok = append(ok, c19Case{Name: nm, Src: form.render(lines, "") + "\ntype " + nm + " " + body + "\n", Converter: false,
				Desc: fmt.Sprintf("form=%s lines=%d pos=detached", form.name, li)})
			// P6: marker only in a trailing / body comment
			nm = name()
			ok = append(ok, c19Case{Name: nm, Src: "type " + nm + " interface { // goverter:converter\n\t// goverter:converter\n\tConvert(source int) int // goverter:converter\n} // goverter:converter\n", Converter: false,
				Desc: fmt.Sprintf("form=%s lines=%d pos=trailing-and-body", form.name, li)})
			if li > 1 {
				continue
			}
			// P7: method docs in every form; converter marker in plain form
			nm = name()
			mlines := []string{"goverter:ignoreMissing", "prose goverter:ignore X", "goverter:useZeroValueOnPointerInconsistency no"}
			src := "// goverter:converter\ntype " + nm + " interface {\n" + form.render(mlines, "\t") + "\tConvert(source int) int\n\n" +
				form.render([]string{"goverter:skipCopySameType"}, "\t") + "\n\tDetached(source int) int\n\tTrailing(source string) string // goverter:ignoreMissing\n}\n"
			ok = append(ok, c19Case{Name: nm, Src: src, Converter: true, ConvLines: []string{"converter"},
				Methods: map[string][]string{"Convert": settingsOf(form, mlines), "Detached": nil, "Trailing": nil},
				Desc:    fmt.Sprintf("form=%s pos=method-docs", form.name)})
			// variables block: marker on the var declaration, settings on the specs
			nm = name()
			vlines := []string{"goverter:variables", "goverter:ignoreMissing"}
			src = form.render(vlines, "") + "var (\n" + form.render(mlines, "\t") + "\t" + nm + " func(source int) int\n\n" + form.render([]string{"goverter:skipCopySameType"}, "\t") + "\n\t" + nm + "D func(source string) string\n)\n"
			ok = append(ok, c19Case{Name: nm, Src: src, Converter: containsMarker(form, vlines, "goverter:variables"), Variables: true, ConvLines: settingsOf(form, vlines),
				Methods: map[string][]string{nm: settingsOf(form, mlines), nm + "D": nil},
				Desc:    fmt.Sprintf("form=%s pos=variables-block", form.name)})
		}
	}
	// files with their own header comments: a detached file header never decides whether declarations in the file count
	for hi, hdr := range []string{
		"// Code generated by some-tool. DO NOT EDIT.\n",
		"// Code generated by mockgen v1.2.3; DO NOT EDIT.\n// source: x.go\n",
		"/* Copyright header\n   spanning lines */\n",
		"//go:build !never\n",
		"// goverter:converter\n// goverter:ignoreMissing\n",
	} {
		nm := name()
		ok = append(ok, c19Case{Name: nm, Src: "// goverter:converter\n// goverter:skipCopySameType\ntype " + nm + " " + body + "\n", Converter: true,
			ConvLines: []string{"converter", "skipCopySameType"}, Desc: fmt.Sprintf("form=line-space pos=file-with-header-%d", hi),
			File: fmt.Sprintf("hdr%d.go", hi), Header: hdr})
	}
	// wrong kinds: each in its own package, must be an error
	wrong := []struct{ desc, src string }{
		{"converter marker on struct type", "// goverter:converter\ntype X struct{}\n"},
		{"converter marker on var block", "// goverter:converter\nvar (\n\tX func(int) int\n)\n"},
		{"converter marker on const", "// goverter:converter\nconst X = 1\n"},
		{"variables marker on type", "// goverter:variables\ntype X interface{ Convert(int) int }\n"},
		{"variables marker on const", "// goverter:variables\nconst X = 1\n"},
		{"converter marker on parenthesised group of two", "// goverter:converter\ntype (\n\tX interface{ Convert(int) int }\n\tY interface{ Convert(int) int }\n)\n"},
		{"converter marker on spec that is a struct", "type (\n\t// goverter:converter\n\tX struct{}\n)\n"},
		{"converter marker (block comment) on struct type", "/* goverter:converter */\ntype X struct{}\n"},
		{"converter marker (no space) on var", "//goverter:converter\nvar X func(int) int\n"},
	}
	for _, w := range wrong {
		errs = append(errs, c19Case{Name: "X", Src: w.src, Error: true, Desc: w.desc})
	}
	// controls: same declarations without the marker must load fine
	return ok, errs
}

// RunC19 compares goverter's extraction (public API comments.ParseDocs) with the expectation by construction and checks
// the effect on generation (last line wins; unattached comments change nothing).
func RunC19(run *ev.Run) {
	okCases, errCases := c19Cases()
	mod, err := emit.NewModule("c19")
	if err != nil {
		run.Harness = true
		return
	}
	defer mod.Remove()
	var b strings.Builder
	b.WriteString("// goverter:converter detached file header comment\n\n// goverter:ignoreMissing\n\npackage lay\n\n")
	for _, c := range okCases {
		if c.File != "" {
			mod.Add("lay/"+c.File, c.Header+"\npackage lay\n\n"+c.Src)
			continue
		}
		b.WriteString(c.Src)
		b.WriteString("\n")
	}
	b.WriteString("func body() {\n\t// goverter:converter\n\ttype Inner interface{ Convert(int) int }\n\t_ = Inner(nil)\n}\n")
	mod.Add("lay/lay.go", b.String())
	for i, c := range errCases {
		mod.Add(fmt.Sprintf("e%03d/e.go", i), fmt.Sprintf("package e%03d\n\n%s", i, c.Src))
	}
	if err := mod.Write(); err != nil {
		run.Harness = true
		return
	}
	raws, err := comments.ParseDocs(comments.ParseDocsConfig{BuildTags: "goverter", PackagePattern: []string{"./lay"}, WorkingDir: mod.Dir})
	if err != nil {
		run.Report(ev.Violation{Site: "parsedocs-error-on-valid-layouts", Symptom: "unexpected-error", Detail: err.Error(), Case: map[string]any{"kind": "c19"}})
		return
	}
	byName := map[string]config.RawConverter{}
	for _, r := range raws {
		if r.InterfaceName != "" {
			byName[r.InterfaceName] = r
		} else {
			for v := range r.Methods {
				byName["var:"+v] = r
			}
		}
	}
	states := 0
	for _, c := range okCases {
		states++
		key := c.Name
		if c.Variables {
			key = "var:" + c.Name
		}
		r, found := byName[key]
		desc := map[string]any{"kind": "c19-layout", "desc": c.Desc, "source": c.Src}
		site := "layout:" + layoutClass(c.Desc)
		run.Outcome(fmt.Sprintf("expected-converter=%v/found=%v", c.Converter, found))
		switch {
		case found != c.Converter:
			run.Report(ev.Violation{Site: site, Symptom: fmt.Sprintf("converter-detected=%v-expected=%v", found, c.Converter),
				Detail: fmt.Sprintf("%s\n%s", c.Desc, c.Src), Case: desc})
			continue
		case !found:
			continue
		}
		if !eqLines(r.Converter.Lines, c.ConvLines) {
			run.Report(ev.Violation{Site: site + "|conv-lines", Symptom: "setting-lines-differ",
				Detail: fmt.Sprintf("%s\nexpected converter lines %q\ngoverter sees        %q\n%s", c.Desc, c.ConvLines, r.Converter.Lines, c.Src), Case: desc})
		}
		for m, want := range c.Methods {
			if !eqLines(r.Methods[m].Lines, want) {
				run.Report(ev.Violation{Site: site + "|method-lines", Symptom: "setting-lines-differ",
					Detail: fmt.Sprintf("%s method %s\nexpected lines %q\ngoverter sees  %q\n%s", c.Desc, m, want, r.Methods[m].Lines, c.Src), Case: desc})
			}
		}
	}
	// nothing else may be detected as converter (file header, function body)
	expected := map[string]bool{}
	for _, c := range okCases {
		if c.Converter {
			expected[c.Name] = true
		}
	}
	for _, r := range raws {
		if r.InterfaceName != "" && !expected[r.InterfaceName] {
			run.Report(ev.Violation{Site: "unexpected-converter", Symptom: "converter-detected-from-unattached-comment", Detail: r.InterfaceName, Case: map[string]any{"kind": "c19", "name": r.InterfaceName}})
		}
	}
	// wrong kinds must be errors
	for i, c := range errCases {
		states++
		_, err := comments.ParseDocs(comments.ParseDocsConfig{BuildTags: "goverter", PackagePattern: []string{fmt.Sprintf("./e%03d", i)}, WorkingDir: mod.Dir})
		run.Outcome(fmt.Sprintf("wrong-kind/error=%v", err != nil))
		if err == nil {
			run.Report(ev.Violation{Site: "wrong-kind:" + c.Desc, Symptom: "marker-on-wrong-kind-accepted", Detail: c.Desc + "\n" + c.Src, Case: map[string]any{"kind": "c19-wrong-kind", "desc": c.Desc, "source": c.Src}})
		}
	}
	// effect on generation: for the ignoreMissing yes/no orders the last line wins (probe: extra target field)
	n, err := c19Effects(run)
	if err != nil {
		fmt.Println("HARNESS-ERROR:", err)
		run.Harness = true
	}
	states += n
	run.Cov["states"] = states
	run.Cov["transitions"] = states
	run.Cov["evaluations"] = states
	run.Cov["distinct_nontrivial"] = states
	run.Cov["traces_validated_against_impl"] = n
	run.Cov["exhaustive"] = true
	run.Cov["layouts"] = len(okCases)
	run.Cov["wrong_kind_cases"] = len(errCases)
	run.Cov["rule"] = "every combination of comment form (// x, //x, //<tab>x, extra spaces, trailing whitespace, block comment on one/several lines, block with leading stars, one block per line) x line set (marker only, contradictory settings in both orders, prose mixed with settings, marker inside prose, blank line inside) x position (doc of declaration, doc of spec in parentheses, doc of parenthesised declaration, spec in a group, detached by a blank line, trailing/body comments, method docs, variables block) is written to one package; goverter's extraction (comments.ParseDocs) must equal the expectation by construction; markers on wrong declaration kinds must fail; the effect on generation is checked for contradictory lines and custom-function context comments"
	samples := 0
	for _, c := range okCases {
		if samples < 4 && strings.Contains(c.Desc, "block-stars") {
			samples++
			run.Sample(map[string]any{"desc": c.Desc, "source": c.Src, "expect_converter": c.Converter, "expect_lines": c.ConvLines})
		}
	}
}

func layoutClass(desc string) string {
	var keep []string
	for _, f := range strings.Fields(desc) {
		if strings.HasPrefix(f, "form=") || strings.HasPrefix(f, "pos=") {
			keep = append(keep, f)
		}
	}
	sort.Strings(keep)
	return strings.Join(keep, ",")
}

func eqLines(a, b []string) bool {
	if len(a) != len(b) {
		return false
	}
	for i := range a {
		if a[i] != b[i] {
			return false
		}
	}
	return true
}

// c19Effects generates converters whose behaviour depends on comment attachment and order.
func c19Effects(run *ev.Run) (int, error) {
	mod, err := emit.NewModule("c19e")
	if err != nil {
		return 0, err
	}
	defer mod.Remove()
	type eff struct {
		name, src string
		wantOK    bool
		desc      string
		wantText  string // must occur verbatim in the generated output
	}
	var effs []eff
	types := "type In struct{ A int }\ntype Out struct{ A int; D int }\ntype Out2 struct{ A string }\n"
	n := 0
	add := func(desc, doc, mdoc string, wantOK bool) {
		n++
		nm := fmt.Sprintf("X%03d", n)
		effs = append(effs, eff{nm, doc + "type " + nm + " interface {\n" + mdoc + "\tConvert(source In) Out\n}\n", wantOK, desc, ""})
	}
	for _, form := range c19Forms() {
		star := form.name == "block-stars"
		// converter-level: last of two contradictory lines wins
		add("conv yes,no "+form.name, form.render([]string{"goverter:converter", "goverter:ignoreMissing yes", "goverter:ignoreMissing no"}, ""), "", false)
		add("conv no,yes "+form.name, form.render([]string{"goverter:converter", "goverter:ignoreMissing no", "goverter:ignoreMissing yes"}, ""), "", !star)
		// method-level in this form
		add("method no,yes "+form.name, "// goverter:converter\n", form.render([]string{"goverter:ignoreMissing no", "goverter:ignoreMissing"}, "\t"), !star)
		// method comment detached by a blank line: not a setting
		add("method detached "+form.name, "// goverter:converter\n", form.render([]string{"goverter:ignoreMissing"}, "\t")+"\n", false)
	}
	// custom function context comments: attached ⇒ ctxv is a context, detached ⇒ second source ⇒ error
	for i, form := range c19Forms() {
		star := form.name == "block-stars"
		for _, detached := range []bool{false, true} {
			n++
			nm := fmt.Sprintf("X%03d", n)
			fn := fmt.Sprintf("Fn%d%v", i, detached)
			doc := form.render([]string{"goverter:context ctxv"}, "")
			if detached {
				doc += "\n"
			}
			src := "// goverter:converter\n// goverter:extend " + fn + "\ntype " + nm + " interface {\n\t// goverter:context ctxa\n\tConvert(source In, ctxa string) Out2\n}\n\n" +
				doc + "func " + fn + "(s int, ctxv string) string { return ctxv }\n"
			effs = append(effs, eff{nm, src, !detached && !star, fmt.Sprintf("custom-function context comment form=%s detached=%v", form.name, detached), ""})
		}
	}
	// a context comment on one custom function must not act as a setting for the function that follows it in the file
	{
		n++
		nm := fmt.Sprintf("X%03d", n)
		effs = append(effs, eff{nm, "// goverter:converter\n// goverter:extend LeakB\ntype " + nm + " interface {\n\t// goverter:context ctxa\n\tConvert(source In, ctxa string) Out2\n}\n\n" +
			"// goverter:context ctxv\nfunc LeakA(s int64, ctxv string) string { return ctxv }\n\nfunc LeakB(s int, ctxv string) string { return ctxv }\n", false,
			"context comment of the preceding function must not apply to the next function", ""})
		n++
		nm = fmt.Sprintf("X%03d", n)
		effs = append(effs, eff{nm, "// goverter:converter\n// goverter:extend LeakD\ntype " + nm + " interface {\n\t// goverter:context ctxa\n\tConvert(source In, ctxa string) Out2\n}\n\n" +
			"func LeakC(s int64, ctxv string) string { return ctxv }\n\n// goverter:context ctxv\nfunc LeakD(s int, ctxv string) string { return ctxv }\n\nfunc LeakE(s int32, ctxv string) string { return ctxv }\n", true,
			"control: the function carrying the context comment itself", ""})
	}
	// ... nor for any later documented function of the file: a parameter that carries the name of another function's
	// context is that function's source when its own comment declares a different context
	{
		n++
		nm := fmt.Sprintf("X%03d", n)
		effs = append(effs, eff{nm, "// goverter:converter\n// goverter:extend LeakF\ntype " + nm + " interface {\n\t// goverter:context ctxa\n\tConvert(source In, ctxa string) Out2\n}\n\n" +
			"// goverter:context ctxv\nfunc LeakG(s int64, ctxv string) string { return ctxv }\n\n// goverter:context other\nfunc LeakF(ctxv int, other string) string { return other }\n", true,
			"context name of an earlier documented function is an ordinary source parameter name in a later documented function", ""})
	}
	// the value of a setting is the text after the FIRST space, verbatim: further leading spaces belong to the value
	for _, form := range c19Forms() {
		if form.name == "block-stars" {
			continue
		}
		n++
		nm := fmt.Sprintf("X%03d", n)
		doc := form.render([]string{"goverter:converter", "goverter:ignoreMissing", "goverter:output:raw const Usage" + nm + " = `usage:", "goverter:output:raw     -x  enable x", "goverter:output:raw `"}, "")
		effs = append(effs, eff{name: nm, src: doc + "type " + nm + " interface {\n\tConvert(source In) Out\n}\n", wantOK: true,
			desc: "value-verbatim output:raw form=" + form.name, wantText: "usage:\n    -x  enable x\n`"})
	}
	var b strings.Builder
	b.WriteString("package eff\n\n" + types + "\n")
	for _, e := range effs {
		b.WriteString(e.src + "\n")
	}
	mod.Add("eff/eff.go", b.String())
	if err := mod.Write(); err != nil {
		return 0, err
	}
	sess, err := drive.Open(mod.Dir, []string{"./eff"}, nil)
	if err != nil {
		return 0, err
	}
	for _, e := range effs {
		rc, ok := sess.Raws[e.name]
		if !ok {
			run.Report(ev.Violation{Site: "effect:not-a-converter", Symptom: "converter-not-detected", Detail: e.desc + "\n" + e.src, Case: map[string]any{"kind": "c19-effect", "desc": e.desc, "source": e.src}})
			continue
		}
		out := sess.Gen(rc, nil)
		run.Outcome(fmt.Sprintf("effect:want-ok=%v/real:%s", e.wantOK, out.Kind))
		if (out.Kind == drive.Files) != e.wantOK && out.Kind != drive.Panic {
			run.Report(ev.Violation{Site: "effect:" + layoutClass(strings.ReplaceAll(e.desc, " ", " form=")), Symptom: fmt.Sprintf("generation-ok=%v-expected=%v", out.Kind == drive.Files, e.wantOK),
				Detail: fmt.Sprintf("%s\n%s\n%s", e.desc, e.src, out.Diag), Case: map[string]any{"kind": "c19-effect", "desc": e.desc, "source": e.src}})
		}
		if e.wantText != "" && out.Kind == drive.Files {
			found := false
			var all strings.Builder
			for _, c := range out.Files {
				all.Write(c)
				if strings.Contains(string(c), e.wantText) {
					found = true
				}
			}
			if !found {
				run.Report(ev.Violation{Site: "effect:" + layoutClass(e.desc), Symptom: "setting-value-not-verbatim",
					Detail: fmt.Sprintf("%s: the output does not contain %q (the value is the text after the first space)\n%s\n--- output:\n%s", e.desc, e.wantText, e.src, firstN(all.String(), 1500)),
					Case:   map[string]any{"kind": "c19-effect", "desc": e.desc, "source": e.src}})
			}
		}
	}
	return len(effs), nil
}
