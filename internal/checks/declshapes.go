package checks

import (
	"fmt"
	"os"
	"path/filepath"
	"strings"
	"sync"
	"time"

	"verif/internal/drive"
	"verif/internal/emit"
	"verif/internal/ev"
)

// ---- declaration shapes: every way a converter / variables block can be declared, through the real CLI ----
//
// C13 owns panics, hangs and empty diagnostics; C01 owns "reported success but the tree does not compile".

type declShape struct {
	name string
	src  string // body of package conv after the type declarations
	// settings: converter-level lines tried with this shape (one run per entry; "" = none)
}

const declTypes = `package conv

type S struct {
	A int
	B string
}
type T struct {
	A int
	B string
}
type SA = S
type Base interface {
	Other(source []int) []int
}
type Fn func(source S) T

`

func declShapes() []declShape {
	iface := func(name, decl string) declShape {
		return declShape{name, "// goverter:converter\n$SETTINGS" + decl + "\n"}
	}
	vars := func(name, decl string) declShape {
		return declShape{name, "// goverter:variables\n$SETTINGS" + decl + "\n"}
	}
	return []declShape{
		iface("plain", "type C interface {\n\tConvert(source S) T\n}"),
		iface("generic-interface-unused-param", "type C[X any] interface {\n\tConvert(source S) T\n}"),
		iface("generic-interface-param-in-method", "type C[X any] interface {\n\tConvert(source S) T\n\tSame(source X) X\n}"),
		iface("generic-interface-param-in-container", "type C[X any] interface {\n\tConvert(source []X) []X\n}"),
		iface("generic-interface-constraint", "type C[X ~int | ~string] interface {\n\tConvert(source X) X\n}"),
		iface("embedded-interface", "type C interface {\n\tBase\n\tConvert(source S) T\n}"),
		iface("embedded-only", "type C interface {\n\tBase\n}"),
		iface("type-set-interface", "type C interface {\n\t~int | ~string\n}"),
		iface("type-set-and-method", "type C interface {\n\t~int\n\tConvert(source S) T\n}"),
		iface("comparable-embedded", "type C interface {\n\tcomparable\n\tConvert(source S) T\n}"),
		iface("empty-interface", "type C interface{}"),
		iface("any-alias", "type C = any"),
		iface("interface-alias", "type CBase interface {\n\tConvert(source S) T\n}\n\n// goverter:converter\ntype C = CBase"),
		iface("named-of-named-interface", "type CBase interface {\n\tConvert(source S) T\n}\n\n// goverter:converter\ntype C CBase"),
		iface("unexported-interface", "type c interface {\n\tConvert(source S) T\n}"),
		iface("unexported-method", "type C interface {\n\tconvert(source S) T\n}"),
		iface("mixed-exported-unexported-methods", "type C interface {\n\tConvert(source S) T\n\thidden(source []S) []T\n}"),
		iface("variadic", "type C interface {\n\tConvert(source ...S) []T\n}"),
		iface("no-params", "type C interface {\n\tConvert() T\n}"),
		iface("no-results", "type C interface {\n\tConvert(source S)\n}"),
		iface("named-results", "type C interface {\n\tConvert(source S) (target T, err error)\n}"),
		iface("named-result-shadowing", "type C interface {\n\tConvert(source S) (source2 T)\n}"),
		iface("blank-param", "type C interface {\n\tConvert(_ S) T\n}"),
		iface("unnamed-param", "type C interface {\n\tConvert(S) T\n}"),
		iface("param-named-c", "type C interface {\n\tConvert(c S) T\n}"),
		iface("param-named-like-local", "type C interface {\n\tConvert(convT S) T\n}"),
		iface("param-named-like-package", "type C interface {\n\tConvert(conv S) T\n}"),
		iface("param-named-target", "type C interface {\n\tConvert(target S) T\n}"),
		iface("alias-param-type", "type C interface {\n\tConvert(source SA) T\n}"),
		iface("func-typed-params", "type C interface {\n\tConvert(source func(S) T) func(S) T\n}"),
		iface("two-methods-same-signature", "type C interface {\n\tConvert(source S) T\n\tAgain(source S) T\n}"),
		iface("method-named-like-helper", "type C interface {\n\tConvert(source []S) []T\n\tConvSToConvT(source S) T\n}"),
		iface("struct-with-marker", "type C struct {\n\tA int\n}"),
		iface("func-type-with-marker", "type C func(source S) T"),
		iface("grouped-type-decl", "type (\n\tC interface {\n\t\tConvert(source S) T\n\t}\n)"),
		vars("var-plain", "var (\n\tV func(source S) T\n)"),
		vars("var-single-no-parens", "var V func(source S) T"),
		vars("var-two-names-one-spec", "var (\n\tV, W func(source S) T\n)"),
		vars("var-named-func-type", "var (\n\tV Fn\n)"),
		vars("var-with-initial-value", "var (\n\tV = func(source S) T { return T{} }\n)"),
		vars("var-typed-nil-initial", "var (\n\tV func(source S) T = nil\n)"),
		vars("var-mixed-with-int", "var (\n\tV func(source S) T\n\tN int\n)"),
		vars("var-only-int", "var (\n\tN int\n)"),
		vars("var-unexported", "var (\n\tv func(source S) T\n)"),
		vars("var-blank", "var (\n\t_ func(source S) T\n)"),
		vars("var-variadic", "var (\n\tV func(source ...S) []T\n)"),
		vars("var-unnamed-param", "var (\n\tV func(S) T\n)"),
		vars("var-with-error", "var (\n\tV func(source S) (T, error)\n)"),
		vars("var-empty-block", "var ()"),
		vars("const-with-marker", "const (\n\tK = 1\n)"),
		vars("type-with-variables-marker", "type C interface {\n\tConvert(source S) T\n}"),
		vars("var-update", "var (\n\t// goverter:update target\n\tV func(source S, target *T)\n)"),
	}
}

var declSettings = []string{"", "skipCopySameType", "output:format function", "output:format assign-variable", "output:file ./same.gen.go\n// goverter:output:package vx/conv"}

// RunDeclShapes runs every shape × setting through the CLI. Returns the number of CLI runs.
func RunDeclShapes(run *ev.Run) int {
	base, err := os.MkdirTemp(emit.ScratchRoot(), "verif-decl-")
	if err != nil {
		run.Harness = true
		return 0
	}
	defer os.RemoveAll(base)
	type job struct {
		sh  declShape
		set string
		i   int
	}
	var jobs []job
	for _, sh := range declShapes() {
		for _, set := range declSettings {
			jobs = append(jobs, job{sh, set, len(jobs)})
		}
	}
	var mu sync.Mutex
	var wg sync.WaitGroup
	sem := make(chan bool, nWorkers)
	for _, j := range jobs {
		wg.Add(1)
		sem <- true
		go func(j job) {
			defer wg.Done()
			defer func() { <-sem }()
			dir := filepath.Join(base, fmt.Sprint("m", j.i))
			lines := ""
			if j.set != "" {
				lines = "// goverter:" + j.set + "\n"
			}
			src := declTypes + strings.ReplaceAll(j.sh.src, "$SETTINGS", lines)
			_ = os.MkdirAll(filepath.Join(dir, "conv"), 0o755)
			_ = os.WriteFile(filepath.Join(dir, "go.mod"), []byte("module vx\n\ngo 1.22\n"), 0o644)
			_ = os.WriteFile(filepath.Join(dir, "conv", "conv.go"), []byte(src), 0o644)
			r := drive.RunCLI(dir, 120*time.Second, "gen", "./conv")
			cls := fmt.Sprintf("decl=%s settings=%q", j.sh.name, firstLine(j.set))
			cs := map[string]any{"kind": "decl-shape", "class": cls, "shape": j.sh.name, "settings": j.set, "source": src, "repro_sh": declRepro(src)}
			var built *drive.CLIResult
			if r.Exit == 0 && !r.Timeout {
				// interface converters in struct format: the generated type must implement the declared interface
				if g, err := os.ReadFile(filepath.Join(dir, "conv", "generated", "generated.go")); err == nil && strings.Contains(string(g), "type CImpl struct") && strings.Contains(src, "type C interface") {
					_ = os.MkdirAll(filepath.Join(dir, "apicheck"), 0o755)
					_ = os.WriteFile(filepath.Join(dir, "apicheck", "a.go"), []byte("package apicheck\n\nimport (\n\t\"vx/conv\"\n\t\"vx/conv/generated\"\n)\n\nvar _ conv.C = &generated.CImpl{}\n"), 0o644)
				}
				b := drive.RunGo(dir, 300*time.Second, "build", "./...")
				built = &b
			}
			mu.Lock()
			defer mu.Unlock()
			if os.Getenv("VERIF_CLASS_OUTCOMES") != "" { // development aid
				res := fmt.Sprint("exit=", r.Exit)
				if built != nil {
					res += fmt.Sprint(" build=", built.Exit)
				}
				run.Outcome("declclass:" + cls + " " + res)
			}
			switch {
			case r.Timeout:
				run.Outcome("decl:hang")
				if run.Prop == "C13" {
					run.Report(ev.Violation{Site: "decl-shape-hang|" + cls, Symptom: "hang", Detail: "goverter gen ./conv did not terminate within 120 s\n" + src, Case: cs})
				}
			case strings.Contains(r.Stderr, "panic:") || strings.Contains(r.Stderr, "goroutine ") || strings.Contains(r.Stderr, "fatal error:"):
				run.Outcome("decl:panic")
				if run.Prop == "C13" {
					run.Report(ev.Violation{Site: "decl-shape-panic|" + firstLine(strings.TrimSpace(r.Stderr)), Symptom: "panic", Detail: cls + "\n" + src + "\n" + firstN(r.Stderr, 2500), Case: cs})
				}
			case r.Exit != 0:
				run.Outcome("decl:rejected")
				if run.Prop == "C13" && strings.TrimSpace(r.Stderr+r.Stdout) == "" {
					run.Report(ev.Violation{Site: "decl-shape-empty-diagnostic|" + cls, Symptom: "empty-diagnostic", Detail: cls + "\n" + src, Case: cs})
				}
			default:
				if built.Exit != 0 {
					run.Outcome("decl:generated-does-not-compile")
					if run.Prop == "C01" {
						run.Report(ev.Violation{Site: "decl-shape-compile|" + cls, Symptom: "does-not-compile",
							Detail: cls + ": goverter reported success but the module does not compile\n" + src + "\n" + firstN(built.Stderr, 2000), Case: cs})
					}
				} else {
					run.Outcome("decl:generated-compiles")
				}
			}
		}(j)
	}
	wg.Wait()
	run.Cov["declaration_shapes"] = len(declShapes())
	run.Cov["declaration_shape_runs"] = len(jobs)
	return len(jobs)
}

// declRepro renders the stand-alone reproduction script of one declaration-shape case.
func declRepro(src string) string {
	var b strings.Builder
	b.WriteString("#!/bin/bash\n# stand-alone reproduction: recreates the input module, runs goverter (GOVERTER=path, default /verif/bin/goverter) and builds the result\n")
	b.WriteString("export GOFLAGS=-mod=mod GOPROXY=off GOSUMDB=off GOTOOLCHAIN=local\nd=$(mktemp -d); trap 'rm -rf \"$d\"' EXIT; cd \"$d\"\n")
	b.WriteString("printf 'module vx\\n\\ngo 1.22\\n' > go.mod\nmkdir -p conv\n")
	fmt.Fprintf(&b, "cat > conv/conv.go <<'VERIF_EOF'\n%s\nVERIF_EOF\n", strings.TrimRight(src, "\n"))
	b.WriteString("\"${GOVERTER:-/verif/bin/goverter}\" gen ./conv; echo \"goverter-exit=$?\"\ngo build ./... ; echo \"build-exit=$?\"\n")
	return b.String()
}
