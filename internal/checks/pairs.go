package checks

import (
	"crypto/sha1"
	"encoding/hex"
	"fmt"
	"sort"
	"strings"

	"verif/internal/drive"
	"verif/internal/emit"
	"verif/internal/ev"
	"verif/internal/model"
	"verif/internal/pool"
	"verif/internal/space"
)

// flag is one convertibility-changing setting that the pair explorer toggles at converter level.
type flag struct {
	line  string
	apply func(*model.Settings)
}

var pairFlags = []flag{
	{"skipCopySameType", func(s *model.Settings) { s.SkipCopySameType = true }},
	{"useZeroValueOnPointerInconsistency", func(s *model.Settings) { s.UseZeroPtr = true }},
	{"enum:unknown @ignore", func(s *model.Settings) { s.EnumUnknown = "@ignore" }},
	{"enum no", func(s *model.Settings) { s.EnumOff = true }},
	{"ignoreUnexported", func(s *model.Settings) { s.IgnoreUnexported = true }},
	{"ignoreMissing", func(s *model.Settings) { s.IgnoreMissing = true }},
	{"matchIgnoreCase", func(s *model.Settings) { s.MatchIgnoreCase = true }},
	{"useUnderlyingTypeMethods", func(s *model.Settings) { s.UseUnderlying = true }},
}

// vectors enumerates all subsets of pairFlags with at most k members, simplest first.
func vectors(k int) [][]int {
	out := [][]int{{}}
	n := len(pairFlags)
	if k >= 1 {
		for i := 0; i < n; i++ {
			out = append(out, []int{i})
		}
	}
	if k >= 2 {
		for i := 0; i < n; i++ {
			for j := i + 1; j < n; j++ {
				out = append(out, []int{i, j})
			}
		}
	}
	return out
}

// ShapeKey abstracts a type to its constructor skeleton with leaf classes (used as violation site).
func ShapeKey(t *space.Ty) string {
	switch t.K {
	case space.Basic:
		return "b:" + t.Name
	case space.Named:
		u := t.Under()
		switch {
		case len(t.D.Consts) > 0:
			return "enum"
		case u.K == space.Basic:
			return "nbasic"
		case u.K == space.Struct:
			if len(t.TArgs) > 0 {
				return "gstruct"
			}
			return "nstruct:" + t.D.Name
		case u.K == space.Iface:
			return "niface"
		}
		return "named"
	case space.Ptr:
		return "*" + ShapeKey(t.Elem)
	case space.Slice:
		return "[]" + ShapeKey(t.Elem)
	case space.Array:
		return "[N]" + ShapeKey(t.Elem)
	case space.Map:
		return "map[" + ShapeKey(t.MKey) + "]" + ShapeKey(t.Elem)
	case space.Struct:
		var fs []string
		for _, f := range t.Fields {
			fs = append(fs, ShapeKey(f.T))
		}
		return "struct{" + strings.Join(fs, ";") + "}"
	case space.Iface:
		return "iface"
	case space.Func:
		return "func"
	case space.Chan:
		return "chan"
	case space.Error:
		return "error"
	}
	return "?"
}

type pairSpace struct {
	u      *space.Universe
	pairs  [][2]*space.Ty
	groups []map[string]any
	k      int
}

// addGroup adds all ordered pairs over Types(leaves, depth), skipping pairs already present.
func (ps *pairSpace) addGroup(name string, leaves []*space.Ty, depth int, seen map[string]bool) {
	types := space.Types(leaves, depth)
	n := 0
	for _, s := range types {
		for _, t := range types {
			k := s.Key() + "→" + t.Key()
			if seen[k] {
				continue
			}
			seen[k] = true
			ps.pairs = append(ps.pairs, [2]*space.Ty{s, t})
			n++
		}
	}
	ps.groups = append(ps.groups, map[string]any{"group": name, "leaves": len(leaves), "depth": depth, "types": len(types), "new_pairs": n})
}

func newPairSpace(tier string) *pairSpace {
	ps := &pairSpace{u: space.StdUniverse()}
	seen := map[string]bool{}
	u := ps.u
	tiny := []*space.Ty{space.B("int"), space.N(u.Get("in", "P")), space.N(u.Get("out", "P")), space.Any(), space.St()}
	switch tier {
	case "thorough":
		ps.k = 2
		ps.addGroup("full-alphabet-depth1", u.Leaves(true), 1, seen)
		ps.addGroup("reduced-alphabet-depth2", u.Leaves(false), 2, seen)
	default:
		ps.k = 1
		ps.addGroup("full-alphabet-depth1", u.Leaves(true), 1, seen)
		ps.addGroup("tiny-alphabet-depth2", tiny, 2, seen)
	}
	// types that goverter must spell out correctly; paired among themselves (and with int / a named key, so that
	// maps with converted keys force a make() of the exotic value type)
	ps.addGroup("exotic-alphabet-depth1", append(u.ExoticLeaves(), space.B("int"), space.N(u.Get("in", "MyInt")), space.N(u.Get("out", "MyInt"))), 1, seen)
	return ps
}

func (ps *pairSpace) describe() map[string]any {
	return map[string]any{"pair_groups": ps.groups, "pairs": len(ps.pairs), "setting_deviations": ps.k, "setting_vectors": len(vectors(ps.k))}
}

// pairIface renders the converter interface of pair index idx.
func pairIface(name string, s, t *space.Ty) string {
	return fmt.Sprintf("// goverter:converter\ntype %s interface {\n\tConvert(source %s) %s\n}\n\n", name, s.Go("conv"), t.Go("conv"))
}

const convHeader = "package conv\n\nimport (\n\t\"unsafe\"\n\n\t\"vx/in\"\n\t\"vx/out\"\n\t\"vx/third\"\n)\n\nvar (\n\t_ unsafe.Pointer\n\t_ in.MyInt\n\t_ out.MyInt\n\t_ third.ID3\n)\n\n"

// PairWorker explores the pairs idx ≡ shard (mod n): model verdict vs. real in-process outcome.
func PairWorker(w *pool.W, shard, n int, tier string) error {
	ps := newPairSpace(tier)
	mod, err := emit.NewModule("pairs")
	if err != nil {
		return err
	}
	defer mod.Remove()
	mod.AddUniverse(ps.u)
	var b strings.Builder
	b.WriteString(convHeader)
	var mine []int
	for idx := shard; idx < len(ps.pairs); idx += n {
		mine = append(mine, idx)
		fmt.Fprint(&b, pairIface(fmt.Sprintf("C%07d", idx), ps.pairs[idx][0], ps.pairs[idx][1]))
	}
	mod.Add("conv/conv.go", b.String())
	if err := mod.Write(); err != nil {
		return err
	}
	sess, err := drive.Open(mod.Dir, []string{"./conv"}, nil)
	if err != nil {
		return fmt.Errorf("open session: %w", err)
	}
	vecs := vectors(ps.k)
	for _, idx := range mine {
		s, t := ps.pairs[idx][0], ps.pairs[idx][1]
		name := fmt.Sprintf("C%07d", idx)
		rc, ok := sess.Raws[name]
		if !ok {
			return fmt.Errorf("converter %s not found by ParseDocs", name)
		}
		for vi, vec := range vecs {
			var set model.Settings
			var lines []string
			for _, fi := range vec {
				pairFlags[fi].apply(&set)
				lines = append(lines, pairFlags[fi].line)
			}
			conv := &model.Converter{Set: set, OutPkg: "conv/generated", LitPkg: "conv"}
			meth := &model.Method{Name: "Convert", Src: s, Dst: t, Set: set}
			conv.Methods = []*model.Method{meth}
			res := model.Judge(conv, meth)
			w.Begin(fmt.Sprintf("%s %s -> %s %v", name, s, t, lines))
			out := sess.Gen(rc, &drive.Inject{Converter: lines})
			w.Count("evaluations")
			w.CountN("transitions", res.Transitions)
			w.Count("verdict:" + res.Verdict.String() + "/real:" + out.Kind.String())
			if res.Verdict != model.OK || len(res.Plan.Defs) > 0 || res.Plan.Root == nil || res.Plan.Root.Op != "copy" {
				if vi == 0 {
					w.Count("distinct_nontrivial_pairs")
				}
			}
			cs := map[string]any{"iface": name, "kind": "pair", "source": s.Go("conv"), "target": t.Go("conv"), "converter_lines": lines, "tier": tier, "index": idx}
			site := "model:" + strings.Join(uniq(res.Codes), "+")
			if res.Verdict == model.OK {
				site = "impl:" + diagClass(out.Diag)
			}
			_ = ShapeKey
			w.Rep(pool.Rep{Class: res.Verdict.String() + "/" + out.Kind.String() + "/" + site, Case: cs, Kind: out.Kind.String(), Hash: filesHash(out.Files)})
			switch out.Kind {
			case drive.Panic:
				w.Viol(ev.Violation{Property: "C13", Site: panicSite(out.Diag), Symptom: "panic", Detail: fmt.Sprintf("%s → %s with %v\n%s", s, t, lines, out.Diag), Case: cs})
			case drive.Files:
				if len(out.Files) == 0 {
					w.Viol(ev.Violation{Property: "C03", Site: site, Symptom: "success-without-files", Detail: "generation reported success but returned no file", Case: cs})
				}
				if res.Verdict == model.Reject {
					w.Viol(ev.Violation{Property: "C03", Site: site, Symptom: "accepted-must-fail",
						Detail: fmt.Sprintf("%s → %s with %v was generated, but the documented rules define no conversion:\n%s", s, t, lines, strings.Join(res.Reasons, "\n")), Case: cs})
				}
			case drive.Error:
				if strings.TrimSpace(out.Diag) == "" {
					w.Viol(ev.Violation{Property: "C03", Site: site, Symptom: "empty-diagnostic", Detail: "generation failed with an empty diagnostic", Case: cs})
				}
				if len(out.Files) != 0 {
					w.Viol(ev.Violation{Property: "C03", Site: site, Symptom: "files-on-failure", Detail: "generation failed but returned files", Case: cs})
				}
				if res.Verdict == model.OK {
					w.Viol(ev.Violation{Property: "C03", Site: site, Symptom: "rejected-must-succeed",
						Detail: fmt.Sprintf("%s → %s with %v is covered by the documented rules but goverter failed:\n%s", s, t, lines, out.Diag), Case: cs})
				}
				if !strings.Contains(out.Diag, "Convert") && !strings.Contains(out.Diag, name) {
					w.Viol(ev.Violation{Property: "C13", Site: "diag-without-decl|" + firstLine(out.Diag), Symptom: "diagnostic-does-not-name-declaration", Detail: out.Diag, Case: cs})
				}
			}
			if vi == 0 && idx%997 == 0 {
				w.Sample(map[string]any{"source": s.Go("conv"), "target": t.Go("conv"), "lines": lines, "model": res.Verdict.String(), "real": out.Kind.String()})
			}
		}
	}
	for k := range map[string]bool{} {
		_ = k
	}
	w.CountN("states_types", 0)
	return nil
}

// filesHash hashes generated file contents (sorted by name; names excluded because scratch roots differ).
func filesHash(files map[string][]byte) string {
	var names []string
	for n := range files {
		names = append(names, n)
	}
	sort.Strings(names)
	h := sha1.New()
	for _, n := range names {
		h.Write(files[n])
	}
	return hex.EncodeToString(h.Sum(nil)[:8])
}

func firstLine(s string) string {
	if i := strings.IndexByte(s, '\n'); i >= 0 {
		return s[:i]
	}
	return s
}

func uniq(in []string) []string {
	seen := map[string]bool{}
	var out []string
	for _, x := range in {
		if !seen[x] {
			seen[x] = true
			out = append(out, x)
		}
	}
	sort.Strings(out)
	return out
}

// diagClass reduces a goverter diagnostic to a wording-independent class: the first words of its cause line.
func diagClass(d string) string {
	ls := strings.Split(strings.TrimSpace(d), "\n")
	last := ""
	for _, l := range ls {
		l = strings.TrimSpace(l)
		if strings.HasPrefix(l, "TypeMismatch") || strings.HasPrefix(l, "Cannot") || strings.HasPrefix(l, "Enum") || strings.HasPrefix(l, "Error") {
			last = l
		}
	}
	if last == "" && len(ls) > 0 {
		last = ls[0]
	}
	f := strings.Fields(last)
	if len(f) > 3 {
		f = f[:3]
	}
	return strings.Join(f, " ")
}

// panicSite extracts the innermost goverter frame of a recovered panic as site key.
func panicSite(diag string) string {
	lines := strings.Split(diag, "\n")
	for _, l := range lines[1:] {
		if strings.Contains(l, "github.com/jmattheis/goverter") && strings.Contains(l, "(") {
			if i := strings.LastIndex(l, "("); i > 0 {
				l = l[:i]
			}
			return l + ": " + firstLine(diag)
		}
	}
	return firstLine(diag)
}

func sortedKeys(m map[string]int) []string {
	var k []string
	for x := range m {
		k = append(k, x)
	}
	sort.Strings(k)
	return k
}
