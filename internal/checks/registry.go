package checks

import (
	"encoding/json"
	"fmt"
	"os"

	"verif/internal/ev"
	"verif/internal/pool"
)

var Registry = map[string]func(*ev.Run){
	"C03": func(r *ev.Run) { RunPairs(r, pairTier(r)) },
	"C01": RunRtPairs,
	"C02": RunRtPairs,
	"C04": RunRtPairs,
	"C18": RunRtPairs,
	"C13": func(r *ev.Run) { RunPairs(r, pairTier(r)) },
}

var Workers = map[string]func(w *pool.W, shard, n int, args []string) error{
	"rtpairs": func(w *pool.W, shard, n int, args []string) error { return RtPairWorker(w, shard, n, args[0]) },
	"pairs": func(w *pool.W, shard, n int, args []string) error { return PairWorker(w, shard, n, args[0]) },
}

func pairTier(r *ev.Run) string {
	if r.Thorough() {
		return "thorough"
	}
	return "quick"
}

// Replay re-runs exactly the case of a replay file (no explorer) and prints what the product does.
func Replay(prop, path string) int {
	b, err := os.ReadFile(path)
	if err != nil {
		fmt.Fprintln(os.Stderr, err)
		return 2
	}
	var v ev.Violation
	if err := json.Unmarshal(b, &v); err != nil {
		fmt.Fprintln(os.Stderr, err)
		return 2
	}
	switch v.Case["kind"] {
	case "pair":
		class, r, err := confirmPairCLI(v.Case)
		if err != nil {
			fmt.Fprintln(os.Stderr, err)
			return 2
		}
		fmt.Printf("case: %v\nCLI class=%s exit=%d\nstderr:\n%s\n", v.Case, class, r.Exit, r.Stderr)
		if want := symptomClass[v.Symptom]; want == class {
			fmt.Printf("VIOLATION property=%s replay=%s\n", prop, path)
			return 1
		}
		return 0
	}
	fmt.Fprintln(os.Stderr, "unknown replay kind", v.Case["kind"])
	return 2
}
