package checks

import (
	"encoding/json"
	"fmt"
	"os"

	"verif/internal/ev"
	"verif/internal/pool"
)

var Registry = map[string]func(*ev.Run){
	"C03": func(r *ev.Run) {
		RunPairs(r, pairTier(r))
		// second half of the space: struct pairs under field-level deviation operators and field settings
		c := RunWorkers(r, "c05", []string{pairTier(r), "C03", "gen-only"}, "")
		r.Cov["struct_field_scenarios"] = c["evaluations"]
		r.Cov["evaluations"] = r.Cov["evaluations"].(int) + c["evaluations"]
		r.Cov["states"] = r.Cov["states"].(int) + c["evaluations"]
		r.Cov["transitions"] = r.Cov["transitions"].(int) + c["transitions"]
		r.Cov["rule"] = "(1) every ordered pair (S,T) of the depth-bounded type alphabets is one converter interface, generated in isolation by the real pipeline under every setting vector with <=k deviations; (2) struct pairs under every field-level deviation operator (renamed, re-cased, twins, nested, behind pointers, dropped, methods, unexported) x target variants x placements x <=2 field-setting lines; real outcome vs three-valued model verdict; states = judged (pair|scenario, settings) combinations, transitions = model rule applications; non-trivial = model plan is not a bare basic copy"
	},
	"C01": func(r *ev.Run) { runAllFamilies(r) },
	"C02": func(r *ev.Run) {
		RunRtPairs(r)
		// recursive shapes: every reachable struct graph with <=2 (3) named nodes and self-referential named container types
		c := RunWorkers(r, "recrt", []string{pairTier(r)}, "")
		r.Cov["recursive_graph_cases_executed"] = c["cases_executed"]
		r.Cov["evaluations"] = r.Cov["evaluations"].(int) + c["calls"]
		r.Cov["states"] = r.Cov["states"].(int) + c["cases_executed"]
		r.Cov["transitions"] = r.Cov["transitions"].(int) + c["calls"]
		r.Cov["distinct_nontrivial"] = r.Cov["distinct_nontrivial"].(int) + c["cases_executed"]
	},
	"C04": func(r *ev.Run) {
		RunRtPairs(r)
		// sharing must also not leak through generated sub-methods that a sibling method with skipCopySameType reuses
		c := RunWorkers(r, "c04nested", []string{pairTier(r)}, "")
		r.Cov["shared_submethod_scenarios"] = c["evaluations"]
		r.Cov["evaluations"] = r.Cov["evaluations"].(int) + c["calls"]
		r.Cov["states"] = r.Cov["states"].(int) + c["cases_executed"]
	},
	"C18": func(r *ev.Run) { runAllFamilies(r) },
	"C05": func(r *ev.Run) {
		RunScenarioFamily(r, "c05", len(C05Scenarios(pairTier(r))), "struct pair In{A,B,Name}->Out{A,B,Name} under every source-struct variant x target variant x placement x every subset of <=k field-setting lines; generation outcome vs model verdict, accepted cases executed on all values within the deviation bound against the model plan")
	},
	"C06": func(r *ev.Run) {
		RunScenarioFamily(r, "c06", len(C06Scenarios(pairTier(r))), "leaf pair with a custom function in each form (extend local / other package / regex / converter argument / error / declared method with own field settings / underlying types / context variants) wrapped by every nesting path of <=d constructors (pointer, slice, map value, map key, unnamed struct, named struct); generation outcome vs model; accepted cases executed on all values within the deviation bound: the custom function's recognisable result (function marker + context digest) must appear at exactly the model's Custom positions")
	},
	"C07": func(r *ev.Run) {
		RunScenarioFamily(r, "c07", len(C07Scenarios(pairTier(r))), "fallible custom functions (fail iff the argument marker is negative) under every nesting path x wrapping mode {none, wrapErrors, wrapErrorsUsing with a recording package}; inputs within the value deviation bound give no fault, every single fault (k=1) and every pair of faults (k=2); oracle: error iff a failing element exists, error wraps the function's sentinel, reported location (all Wrap calls concatenated / parsed wrapErrors chain) leads to a failing element of the input")
	},
	"C08": func(r *ev.Run) {
		RunScenarioFamily(r, "c08", len(C08Scenarios(pairTier(r))), "enum pairs over underlying {int,uint8,int64 beyond 2^53,uint64 near 2^64,string,float64} x member-set variants (same, renamed, extra source/target member, aliases on either side, prefixed) x enum:map / enum:transform regex / enum:unknown (each action, key, bad key, bad action; converter or method level) / enum no / enum:exclude x position (top, field, slice element, map value, map key); generation outcome vs model; accepted cases executed on every member value and on non-member values of the underlying domain")
	},
	"C10": func(r *ev.Run) {
		RunScenarioFamily(r, "c10", len(C10Scenarios(pairTier(r))), "update methods In{F,G} -> *Out{F,G,Keep(ignored)} for every field kind (basic, named basic, unnamed/named struct, pointer, slice, map, pointer-to-value, any/func/chan/array under skipCopySameType, non-comparable struct) x every subset of the ignoreZeroValueField categories x level (method, converter, CLI -g) x skipCopySameType x method-level 'no' override x signature variants (pointer source, argument order, error, context); executed for every source value within the deviation bound x every target pre-state; oracle: target after the call equals the pre-state with exactly the model-selected fields replaced, source unchanged")
	},
	"C11": func(r *ev.Run) {
		// pointer-depth combinations (T,*T,**T on either side; top, field, element, map positions) with and without
		// useZeroValueOnPointerInconsistency are part of the type-pair corpus; this run adds them to the default-constructor family
		RunScenarioFamily(r, "c11", len(C11Scenarios(pairTier(r))), "(1) default FUNC menu (no parameter / source / context / error / pointer or value result / wrong result / source mismatch) x method shapes S->T, S->*T, *S->*T, *S->T x default:update at method/converter level/overridden x update:ignoreZeroValueField x method error result: generation outcome vs model, executed on all values in the deviation bound incl. nil sources: nil => exactly FUNC's result, ignored fields keep FUNC's recognisable values, default:update applies the source on top; (2) the pointer-mismatch pairs of the type-pair corpus (T->*U never nil; *T->U only with the flag, nil => zero value)")
		c := RunWorkers(r, "rtpairs", []string{pairTier(r)}, "")
		r.Cov["pair_corpus_calls"] = c["calls"]
		r.Cov["evaluations"] = r.Cov["evaluations"].(int) + c["calls"]
		r.Cov["states"] = r.Cov["states"].(int) + c["cases_executed"]
		r.Cov["transitions"] = r.Cov["transitions"].(int) + c["calls"]
	},
	"C12": func(r *ev.Run) {
		RunScenarioFamily(r, "c12", len(C12Scenarios(pairTier(r))), "complete table: every inheritable boolean setting x {absent, bare, yes, no} at CLI (-g), converter and method level (4^3 placements), with and without a sibling method carrying the opposite value; each setting has a probe declaration whose generation outcome or run-time behaviour is a total function of the value in effect (method > converter > CLI > default); enum:unknown over {absent,@ignore,@panic}^3; plus the misuse table (settings at wrong levels, unknown settings, malformed values) and the wrapErrors/wrapErrorsUsing conflict in every level combination, where the diagnostic must name the place the line was written")
		n, err := RunC12Misuse(r)
		if err != nil {
			r.Harness = true
			fmt.Fprintln(os.Stderr, "HARNESS-ERROR:", err)
		}
		r.Cov["misuse_and_conflict_cases"] = n
		r.Cov["evaluations"] = r.Cov["evaluations"].(int) + n
		r.Cov["states"] = r.Cov["states"].(int) + n
	},
	"C14": func(r *ev.Run) {
		RunScenarioFamily(r, "c14", len(C14Scenarios(pairTier(r))), "all ordered parameter lists of <=k distinct roles {source A, second source B, context by line, context by regex, update target, converter-typed} x all result lists of length <=r over {T, error, int, named error-like interface} for converter methods and goverter:variables function variables (named and unnamed parameters), and for the custom-function use sites extend / map|FUNC / default / struct-method source over {source, second source, context, converter} x results; an independent role classifier predicts accept/reject; accepted ones are generated by the CLI, must compile against the declared signature (parameter order) and are executed against the plan")
	},
	"C09": RunC09,
	"C15": RunC15,
	"C16": RunHistories,
	"C17": RunC17,
	"C19": RunC19,
	"C13": RunC13,
}

var Workers = map[string]func(w *pool.W, shard, n int, args []string) error{
	"rtpairs": func(w *pool.W, shard, n int, args []string) error { return RtPairWorker(w, shard, n, args[0]) },
	"c05": func(w *pool.W, shard, n int, args []string) error {
		scs := shardOf(C05Scenarios(args[0]), shard, n)
		if len(args) > 1 && args[1] != "" {
			for _, sc := range scs {
				sc.PropGen = args[1]
			}
		}
		return ScenarioWorker(w, scs, args[0], len(args) < 3 || args[2] != "gen-only")
	},
	"c06": func(w *pool.W, shard, n int, args []string) error {
		return ScenarioWorker(w, shardOf(C06Scenarios(args[0]), shard, n), args[0], !genOnly(args))
	},
	"c07": func(w *pool.W, shard, n int, args []string) error {
		return ScenarioWorker(w, shardOf(C07Scenarios(args[0]), shard, n), args[0], !genOnly(args))
	},
	"c08": func(w *pool.W, shard, n int, args []string) error {
		return ScenarioWorker(w, shardOf(C08Scenarios(args[0]), shard, n), args[0], !genOnly(args))
	},
	"c10": func(w *pool.W, shard, n int, args []string) error {
		return ScenarioWorker(w, shardOf(C10Scenarios(args[0]), shard, n), args[0], !genOnly(args))
	},
	"c11": func(w *pool.W, shard, n int, args []string) error {
		return ScenarioWorker(w, shardOf(C11Scenarios(args[0]), shard, n), args[0], !genOnly(args))
	},
	"c12": func(w *pool.W, shard, n int, args []string) error { return C12Worker(w, shard, n, args[0], !genOnly(args)) },
	"c04nested": func(w *pool.W, shard, n int, args []string) error {
		return ScenarioWorker(w, shardOf(nestedScenarios(90000, "C04"), shard, n), args[0], !genOnly(args))
	},
	"c14": func(w *pool.W, shard, n int, args []string) error {
		return ScenarioWorker(w, shardOf(C14Scenarios(args[0]), shard, n), args[0], !genOnly(args))
	},
	"recrt": func(w *pool.W, shard, n int, args []string) error {
		return ScenarioWorker(w, shardOf(RecScenarios(args[0]), shard, n), args[0], true)
	},
	"rec": func(w *pool.W, shard, n int, args []string) error {
		skip := parseSkip(args[1])
		var scs []*Scenario
		for _, sc := range shardOf(RecScenarios(args[0]), shard, n) {
			if !skip[sc.ID] {
				scs = append(scs, sc)
			}
		}
		return ScenarioWorker(w, scs, args[0], false)
	},
	"dir": func(w *pool.W, shard, n int, args []string) error { return DirWorker(w, shard, n, args[0], parseSkip(args[1])) },
	"pairs": func(w *pool.W, shard, n int, args []string) error { return PairWorker(w, shard, n, args[0]) },
}

func pairTier(r *ev.Run) string {
	if r.Thorough() {
		return "thorough"
	}
	return "quick"
}

// Replay re-runs exactly the case of a replay file (no explorer) and prints what the product does.
func Replay(prop, path string) int {
	b, err := os.ReadFile(path)
	if err != nil {
		fmt.Fprintln(os.Stderr, err)
		return 2
	}
	var v ev.Violation
	if err := json.Unmarshal(b, &v); err != nil {
		fmt.Fprintln(os.Stderr, err)
		return 2
	}
	switch v.Case["kind"] {
	case "pair":
		class, r, err := confirmPairCLI(v.Case)
		if err != nil {
			fmt.Fprintln(os.Stderr, err)
			return 2
		}
		fmt.Printf("case: %v\nCLI class=%s exit=%d\nstderr:\n%s\n", v.Case, class, r.Exit, r.Stderr)
		if want := symptomClass[v.Symptom]; want == class {
			fmt.Printf("VIOLATION property=%s replay=%s\n", prop, path)
			return 1
		}
		return 0
	}
	fmt.Fprintln(os.Stderr, "unknown replay kind", v.Case["kind"])
	return 2
}

// allFamilies are the scenario families whose CLI output is compiled (C01) and inspected (C18).
var allFamilies = []string{"c05", "c06", "c07", "c08", "c10", "c11", "c12", "c14", "c04nested", "recrt"}

func runAllFamilies(r *ev.Run) {
	RunRtPairs(r)
	for _, fam := range allFamilies {
		c := RunWorkers(r, fam, []string{pairTier(r)}, "")
		r.Cov["family_"+fam+"_compiled_cases"] = c["compiled_cases"]
		r.Cov["family_"+fam+"_files_checked"] = c["generated_files_checked"]
		r.Cov["evaluations"] = r.Cov["evaluations"].(int) + c["compiled_cases"]
		r.Cov["states"] = r.Cov["states"].(int) + c["compiled_cases"]
		r.Cov["traces_validated_against_impl"] = r.Cov["traces_validated_against_impl"].(int) + c["cli_generated_cases"]
	}
	r.Cov["rule"] = rtPairRule + "; additionally every accepted scenario of the families " + fmt.Sprint(allFamilies) + " (struct/field settings, custom functions, error wrapping, enums, update, default, settings table, signatures incl. goverter:variables) is generated by the CLI, compiled with API assertions and its emitted files inspected"
}

func genOnly(args []string) bool { return len(args) > 2 && args[2] == "gen-only" }
