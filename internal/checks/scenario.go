package checks

import (
	"fmt"
	"os"
	"regexp"
	"sort"
	"strings"

	"verif/internal/drive"
	"verif/internal/emit"
	"verif/internal/ev"
	"verif/internal/model"
	"verif/internal/pool"
	"verif/internal/space"
	"verifrt"
)

// ScMethod is one declared method of a scenario's converter interface.
type ScMethod struct {
	Name   string
	Params string // Go parameter list as written in package conv
	Result string // Go result list
	Lines  []string
	M      *model.Method
}

// Scenario is one converter declaration with its own named types, custom functions and model.
type Scenario struct {
	ID        string // unique Go identifier (interface name)
	Decls     []*space.Decl
	ConvLines []string
	Methods   []*ScMethod
	Test      string            // name of the method executed at run time
	FuncsSrc  string            // Go source of custom functions placed in package conv
	Funcs     map[string]string // registered name → Go expression (from package main)
	Conv      *model.Converter
	PropGen   string // property that owns generation-level disagreements
	PropVal   string // property that owns run-time value disagreements
	Mode      string // rt oracle flags
	Desc      map[string]any
	// Unspec: scenario-level reason why either generation outcome is acceptable
	Unspec string
	// run-time call shape of the tested method
	SrcIdx int
	CtxIdx []int
	TgtIdx int
	Global []string // settings given on the command line (-g)
	// Variables: the converter is a goverter:variables block (function variable named VarName) instead of an interface
	Variables bool
	NoRuntime bool // judged at generation level only
	// Forced: verdict decided by the scenario builder (signature-level rejects) instead of model.Judge
	Forced       bool
	ForcedReject string // reason; "" with Forced=true means the builder vouches for success and Judge provides the plan
	// RawSource replaces the generated interface source entirely (comment layouts, unusual declarations)
	RawSource      string
	FnExprOverride string
	AssertOverride string
	NeedConv       bool              // pass the converter instance to the interpreter
	Files          map[string]string // extra files of the scratch module (other packages)
	Imports        []string          // extra package keys imported by conv.go
	// SeparateOutputOnly: the builder's verdict depends on the generated code living outside package conv
	SeparateOutputOnly bool
	// BlankImports: package keys main.go must import for their init functions (variables assigned from another package)
	BlankImports []string
	// OutFile: module-relative path of the generated file when it is not the default of the format
	OutFile string
	// Present: the declaration lives in a file of its own (conv/p_<ID>.go) that imports the type packages under other
	// names; the custom functions stay in conv.go. Nothing observable may depend on this presentation.
	Present bool
}

var presentRenames = []struct {
	re *regexp.Regexp
	to string
}{
	{regexp.MustCompile(`(^|[^.\w])in\.`), "${1}src."},
	{regexp.MustCompile(`(^|[^.\w])out\.`), "${1}dst."},
	{regexp.MustCompile(`(^|[^.\w])third\.`), "${1}trd."},
}

const presentHeader = "package conv\n\nimport (\n\t\"fmt\"\n\t\"unsafe\"\n\n\tsrc \"vx/in\"\n\tdst \"vx/out\"\n\ttrd \"vx/third\"\n)\n\nvar (\n\t_ unsafe.Pointer\n\t_ src.MyInt\n\t_ dst.MyInt\n\t_ trd.ID3\n\t_ = fmt.Sprint\n)\n\n"

// presentSource is the declaration as written in its own file: package qualifiers of the signatures follow the renamed imports.
func (sc *Scenario) presentSource() string {
	var out []string
	for _, l := range strings.Split(sc.ifaceSource(), "\n") {
		if !strings.HasPrefix(strings.TrimSpace(l), "//") {
			for _, r := range presentRenames {
				l = r.re.ReplaceAllString(l, r.to)
			}
		}
		out = append(out, l)
	}
	return presentHeader + strings.Join(out, "\n")
}

func (sc *Scenario) ifaceSource() string {
	if sc.RawSource != "" {
		return sc.RawSource
	}
	var b strings.Builder
	if sc.Variables {
		b.WriteString("// goverter:variables\n")
		for _, l := range sc.ConvLines {
			b.WriteString("// goverter:" + l + "\n")
		}
		b.WriteString("var (\n")
		for _, m := range sc.Methods {
			for _, l := range m.Lines {
				b.WriteString("\t// goverter:" + l + "\n")
			}
			fmt.Fprintf(&b, "\t%s func(%s) %s\n", m.Name, m.Params, m.Result)
		}
		b.WriteString(")\n")
		return b.String()
	}
	b.WriteString("// goverter:converter\n")
	for _, l := range sc.ConvLines {
		b.WriteString("// goverter:" + l + "\n")
	}
	fmt.Fprintf(&b, "type %s interface {\n", sc.ID)
	for _, m := range sc.Methods {
		for _, l := range m.Lines {
			b.WriteString("\t// goverter:" + l + "\n")
		}
		fmt.Fprintf(&b, "\t%s(%s) %s\n", m.Name, m.Params, m.Result)
	}
	b.WriteString("}\n")
	return b.String()
}

func (sc *Scenario) testMethod() *ScMethod {
	for _, m := range sc.Methods {
		if m.Name == sc.Test {
			return m
		}
	}
	return sc.Methods[0]
}

// reproScript renders a self-contained shell script that recreates the scenario's module and runs the real CLI on it.
func (sc *Scenario) reproScript() string {
	var b strings.Builder
	b.WriteString("#!/bin/bash\n# stand-alone reproduction: recreates the input module, runs goverter (GOVERTER=path, default /verif/bin/goverter) and builds the result\n")
	b.WriteString("export GOFLAGS=-mod=mod GOPROXY=off GOSUMDB=off GOTOOLCHAIN=local\nd=$(mktemp -d); trap 'rm -rf \"$d\"' EXIT; cd \"$d\"\n")
	mod, err := scenarioFiles([]*Scenario{sc})
	if err != nil {
		return ""
	}
	var names []string
	for n := range mod {
		names = append(names, n)
	}
	sort.Strings(names)
	for _, n := range names {
		fmt.Fprintf(&b, "mkdir -p \"$(dirname %s)\"\ncat > %s <<'VERIF_EOF'\n%s\nVERIF_EOF\n", n, n, strings.TrimRight(mod[n], "\n"))
	}
	args := "gen"
	for _, g := range sc.Global {
		args += " -g '" + g + "'"
	}
	fmt.Fprintf(&b, "\"${GOVERTER:-/verif/bin/goverter}\" %s ./conv; echo \"goverter-exit=$?\"\n", args)
	b.WriteString("find . -name '*.go' -newer go.mod -path '*gen*' | head -5\ngo build ./... ; echo \"build-exit=$?\"\n")
	return b.String()
}

func (sc *Scenario) describe() map[string]any {
	d := map[string]any{"kind": "scenario", "id": sc.ID, "interface": sc.ifaceSource()}
	d["repro_sh"] = sc.reproScript()
	if len(sc.Global) > 0 {
		d["cli_global"] = sc.Global
	}
	var ds []string
	for _, x := range sc.Decls {
		ds = append(ds, "package "+x.Pkg+": "+x.Source())
	}
	d["decls"] = ds
	if sc.FuncsSrc != "" {
		d["funcs"] = sc.FuncsSrc
	}
	for k, v := range sc.Desc {
		d[k] = v
	}
	return d
}

// scenarioFiles computes the files of a module holding the given scenarios.
func scenarioFiles(scs []*Scenario) (map[string]string, error) {
	mod := &emit.Module{Files: map[string]string{}}
	mod.Add("go.mod", "module "+space.ModulePath+"\n\ngo 1.22\n")
	fillScenarioModule(mod, scs)
	return mod.Files, nil
}

// scenarioModule writes a module with the given scenarios (all declarations in packages in/out/conv).
func scenarioModule(prefix string, scs []*Scenario) (*emit.Module, error) {
	mod, err := emit.NewModule(prefix)
	if err != nil {
		return nil, err
	}
	fillScenarioModule(mod, scs)
	return mod, mod.Write()
}

func fillScenarioModule(mod *emit.Module, scs []*Scenario) {
	u := &space.Universe{Decls: map[string]*space.Decl{}}
	std := space.StdUniverse()
	for k, d := range std.Decls {
		u.Decls[k] = d
	}
	for _, sc := range scs {
		for _, d := range sc.Decls {
			u.Decls[d.Pkg+"."+d.Name] = d
		}
	}
	mod.AddUniverse(u)
	var b strings.Builder
	b.WriteString(convHeaderWith(scenarioImports(scs)))
	for _, sc := range scs {
		if sc.Present {
			mod.Add("conv/p_"+strings.ToLower(sc.ID)+".go", sc.presentSource())
		} else {
			b.WriteString(sc.ifaceSource())
		}
		b.WriteString("\n")
		b.WriteString(sc.FuncsSrc)
		b.WriteString("\n")
	}
	mod.Add("conv/conv.go", b.String())
	for _, sc := range scs {
		for n, c := range sc.Files {
			if old, ok := mod.Files[n]; ok && old != c {
				mod.Files[n] = old + "\n" + stripPackageClause(c)
			} else {
				mod.Add(n, c)
			}
		}
	}
}

// ScenarioWorker judges every scenario of the shard with model and real generator (in-process, isolated), then
// generates the accepted ones with the CLI and executes them.
func ScenarioWorker(w *pool.W, scs []*Scenario, tier string, runtime bool) error {
	groups := map[string][]*Scenario{}
	var order []string
	for _, sc := range scs {
		k := strings.Join(sc.Global, "\x00")
		if _, ok := groups[k]; !ok {
			order = append(order, k)
		}
		groups[k] = append(groups[k], sc)
	}
	for _, k := range order {
		if err := scenarioGroup(w, groups[k], tier, runtime); err != nil {
			return err
		}
	}
	return nil
}

// scenarioGroup handles scenarios that share one command line.
func scenarioGroup(w *pool.W, scs []*Scenario, tier string, runtime bool) error {
	if len(scs) == 0 {
		return nil
	}
	global := scs[0].Global
	mod, err := scenarioModule("scn", scs)
	if err != nil {
		return err
	}
	defer mod.Remove()
	sess, err := drive.Open(mod.Dir, []string{"./conv"}, nil)
	if err != nil {
		return fmt.Errorf("open session (a scenario declaration does not compile?): %w", err)
	}
	batch := &Batch{U: space.StdUniverse()}
	for _, g := range global {
		batch.CLIArgs = append(batch.CLIArgs, "-g", g)
	}
	defer batch.Cleanup()
	declSeen := map[string]bool{}
	for _, sc := range scs {
		rc, ok := sess.Raws[sc.ID]
		if sc.Variables {
			rc, ok = sess.FindVar(sc.testMethod().Name)
		}
		if !ok {
			return fmt.Errorf("scenario %s not found by ParseDocs", sc.ID)
		}
		tm := sc.testMethod()
		var res *model.Result
		if sc.Forced && sc.ForcedReject != "" {
			res = &model.Result{Verdict: model.Reject, Reasons: []string{"reject: " + sc.ForcedReject}, Codes: []string{"signature:" + sc.ForcedReject}, Pkgs: map[string]bool{}, WrapPkgs: map[string]bool{}, WrapOptional: map[string]bool{}, Plan: &rt.PlanSet{}}
		} else {
			res = model.Judge(sc.Conv, tm.M)
		}
		// all declared methods must be judged: a failing sibling fails the converter
		verdict := res.Verdict
		reasons := res.Reasons
		codes := res.Codes
		for _, m := range sc.Methods {
			if m == tm || (sc.Forced && sc.ForcedReject != "") {
				continue
			}
			r2 := model.Judge(sc.Conv, m.M)
			if r2.Verdict > verdict {
				verdict = r2.Verdict
			}
			reasons = append(reasons, r2.Reasons...)
			codes = append(codes, r2.Codes...)
			for p := range r2.Pkgs {
				res.Pkgs[p] = true
			}
			res.NeedFmt = res.NeedFmt || r2.NeedFmt
			res.WrapFmt = res.WrapFmt || r2.WrapFmt
			for p := range r2.WrapPkgs {
				res.WrapPkgs[p] = true
			}
			for p := range r2.WrapOptional {
				res.WrapOptional[p] = true
			}
		}
		if sc.Unspec != "" && verdict == model.OK {
			verdict = model.Unspec
		}
		w.Begin(sc.ID + " " + fmt.Sprint(sc.Desc))
		out := sess.Gen(rc, &drive.Inject{Global: global})
		w.Count("evaluations")
		w.CountN("transitions", res.Transitions)
		w.Count("out:" + verdict.String() + "/real:" + out.Kind.String())
		if os.Getenv("VERIF_CLASS_OUTCOMES") != "" { // development aid: verdicts per scenario class
			w.Count(fmt.Sprintf("out:class:%v/%s/%s", sc.Desc["class"], verdict, out.Kind))
		}
		if verdict != model.OK || len(sc.Methods) > 1 || len(sc.ConvLines)+len(tm.Lines) > 0 {
			w.Count("distinct_nontrivial_scenarios")
		}
		desc := sc.describe()
		site := "model:" + strings.Join(uniq(codes), "+")
		if verdict == model.OK {
			site = "impl:" + diagClass(out.Diag)
		}
		switch out.Kind {
		case drive.Panic:
			w.Viol(ev.Violation{Property: "C13", Site: panicSite(out.Diag), Symptom: "panic", Detail: sc.ifaceSource() + "\n" + out.Diag, Case: desc})
		case drive.Files:
			if verdict == model.Reject {
				w.Viol(ev.Violation{Property: sc.PropGen, Site: site, Symptom: "accepted-must-fail",
					Detail: fmt.Sprintf("generated although the model says it must fail:\n%s\n%s", strings.Join(reasons, "\n"), sc.ifaceSource()), Case: desc})
			}
		case drive.Error:
			if verdict == model.OK {
				w.Viol(ev.Violation{Property: sc.PropGen, Site: site, Symptom: "rejected-must-succeed",
					Detail: fmt.Sprintf("goverter failed although the model defines every position:\n%s\n%s", out.Diag, sc.ifaceSource()), Case: desc})
			}
		}
		w.Rep(pool.Rep{Class: verdict.String() + "/" + out.Kind.String() + "/" + site, Case: desc, Kind: out.Kind.String(), Hash: filesHash(out.Files)})
		if !runtime || sc.NoRuntime || out.Kind != drive.Files || verdict == model.Reject || res.Plan.Root == nil {
			continue
		}
		for _, d := range sc.Decls {
			k := d.Pkg + "." + d.Name
			if !declSeen[k] {
				declSeen[k] = true
				batch.U.Decls[k] = d
			}
		}
		meta := desc
		meta["shape"] = fmt.Sprint(sc.Desc["class"])
		need := needPkgsFor(res, sc.Conv.OutPkg)
		if sc.Variables && sc.Conv.OutPkg != "conv" {
			// the init functions assign the variables declared in package conv from another package
			if p := space.ModulePath + "/conv"; !containsStr(need, p) {
				need = append(need, p)
			}
		}
		meta["need_pkgs"] = need
		meta["optional_pkgs"] = optionalPkgs(res)
		if sc.OutFile != "" {
			meta["out_file"] = sc.OutFile
		} else if sc.Variables {
			meta["out_file"] = "conv/conv.gen.go"
		} else {
			meta["out_file"] = "conv/generated/generated.go"
		}
		for _, l := range sc.ConvLines {
			if strings.HasPrefix(l, "output:raw") {
				meta["output_raw"] = true // user code in the generated file: declarations and reachability are not goverter's
			}
			if strings.HasPrefix(l, "name ") {
				meta["impl_name"] = strings.TrimSpace(strings.TrimPrefix(l, "name "))
			}
		}
		meta["features"] = planFeatures(res.Plan)
		meta["prop_val"] = sc.PropVal
		var apiNames []string
		for _, m := range sc.Methods {
			apiNames = append(apiNames, m.Name)
		}
		meta["api_methods"] = apiNames
		mode := sc.Mode
		if mode == "" {
			mode = "value,nomutate"
		}
		batch.Cases = append(batch.Cases, &RtCase{
			ID: sc.ID, Iface: sc.ifaceSource() + "\n" + sc.FuncsSrc,
			FnExpr: fnExprOf(sc, tm),
			Assert: assertOf(sc),
			Plan:   res.Plan, Mode: mode, Funcs: sc.Funcs, Meta: meta, SrcIdx: sc.SrcIdx, CtxIdx: sc.CtxIdx, TgtIdx: sc.TgtIdx,
			Conv: convExpr(sc), Imports: sc.Imports, BlankImports: sc.BlankImports,
		})
		for n, c := range sc.Files {
			if batch.Files == nil {
				batch.Files = map[string]string{}
			}
			if old, ok := batch.Files[n]; ok && old != c {
				batch.Files[n] = old + "\n" + stripPackageClause(c)
			} else {
				batch.Files[n] = c
			}
		}
	}
	if !runtime {
		return nil
	}
	return runBatchAndReport(w, batch, tier)
}

// shardOf picks the scenarios of a shard (deterministic striping keeps related scenarios apart).
func shardOf(all []*Scenario, shard, n int) []*Scenario {
	var out []*Scenario
	for i := shard; i < len(all); i += n {
		out = append(out, all[i])
	}
	return out
}

func sortedSet(m map[string]bool) []string {
	var k []string
	for x := range m {
		k = append(k, x)
	}
	sort.Strings(k)
	return k
}

func fnExprOf(sc *Scenario, tm *ScMethod) string {
	switch {
	case sc.FnExprOverride != "":
		return sc.FnExprOverride
	case sc.Variables:
		return "conv." + tm.Name
	}
	return fmt.Sprintf("(&generated.%sImpl{}).%s", sc.ID, tm.Name)
}

func assertOf(sc *Scenario) string {
	switch {
	case sc.AssertOverride != "":
		return sc.AssertOverride
	case sc.Variables:
		return ""
	}
	return fmt.Sprintf("var _ conv.%s = &generated.%sImpl{}", sc.ID, sc.ID)
}

func convExpr(sc *Scenario) string {
	if sc.Variables {
		return ""
	}
	if sc.NeedConv {
		return "&generated." + sc.ID + "Impl{}"
	}
	return ""
}

func containsStr(l []string, x string) bool {
	for _, y := range l {
		if y == x {
			return true
		}
	}
	return false
}

func scenarioImports(scs []*Scenario) []string {
	var out []string
	for _, sc := range scs {
		for _, im := range sc.Imports {
			if !containsStr(out, im) {
				out = append(out, im)
			}
		}
	}
	return out
}

func convHeaderWith(imps []string) string {
	var b strings.Builder
	b.WriteString("package conv\n\nimport (\n\t\"fmt\"\n\t\"unsafe\"\n\n\t\"vx/in\"\n\t\"vx/out\"\n\t\"vx/third\"\n")
	for _, i := range imps {
		if i == "third" {
			continue
		}
		fmt.Fprintf(&b, "\t%s\n", space.ImportSpec(i))
	}
	b.WriteString(")\n\nvar (\n\t_ unsafe.Pointer\n\t_ in.MyInt\n\t_ out.MyInt\n\t_ third.ID3\n\t_ = fmt.Sprint\n)\n" + boomSource + c14Support + "\n")
	return b.String()
}

// stripPackageClause removes "package x" and import lines so that two scenario files of one package can be concatenated.
func stripPackageClause(src string) string {
	var keep []string
	for _, l := range strings.Split(src, "\n") {
		if strings.HasPrefix(l, "package ") || strings.HasPrefix(l, "import ") {
			continue
		}
		keep = append(keep, l)
	}
	return strings.Join(keep, "\n")
}

// ---- output formats: the same scenario as output:format function and as a goverter:variables block ----

// reformat returns a copy of sc in the given output format ("function" | "variables"), or nil when the scenario cannot
// be expressed in it (raw sources, converter-typed custom function parameters, command-line settings, own expressions).
// Method names get the scenario id as suffix because functions and variables are package-level names.
func reformat(sc *Scenario, format string) *Scenario {
	if sc.Variables || sc.RawSource != "" || sc.NeedConv || len(sc.Global) > 0 || sc.FnExprOverride != "" || sc.AssertOverride != "" || sc.Conv == nil {
		return nil
	}
	for _, c := range sc.Conv.Extends {
		if c.Conv {
			return nil
		}
	}
	// scenarios that mention their own converter interface (converter-typed parameters) only exist in struct format
	self := regexp.MustCompile(`(^|[^.\w])` + regexp.QuoteMeta(sc.ID) + `\b`) // unqualified use of the interface name
	if self.MatchString(sc.FuncsSrc) {
		return nil
	}
	for _, m := range sc.Methods {
		if self.MatchString(m.Params) || self.MatchString(m.Result) {
			return nil
		}
	}
	if format == "variables" && sc.SeparateOutputOnly {
		return nil
	}
	if format == "present" && len(sc.Imports) > 0 {
		return nil
	}
	if format == "variables-moved" && (sc.OutFile != "" || hasOutputLine(sc.ConvLines)) {
		return nil
	}
	n := *sc
	n.Desc = map[string]any{}
	for k, v := range sc.Desc {
		n.Desc[k] = v
	}
	n.Desc["class"] = fmt.Sprintf("%v format=%s", sc.Desc["class"], format)
	n.Desc["format"] = format
	conv := *sc.Conv
	conv.Methods = nil
	n.Conv = &conv
	n.Methods = nil
	if format == "noise" {
		// settings that only concern update methods and default constructors must not change any other method
		for _, m := range sc.Methods {
			if m.M == nil || m.M.Update || m.M.Default != nil {
				return nil
			}
			for _, l := range m.Lines {
				if strings.HasPrefix(l, "update") || strings.HasPrefix(l, "default") {
					return nil
				}
			}
		}
		for _, l := range sc.ConvLines {
			if strings.HasPrefix(l, "update") || strings.HasPrefix(l, "default") {
				return nil
			}
		}
	}
	newID := sc.ID + map[string]string{"function": "F", "variables": "V", "variables-moved": "M", "reordered": "O", "noise": "N", "present": "P"}[format]
	ren := func(name string) string { return name + "X" + newID } // carries the case id for compile-error attribution
	if format == "reordered" {
		// struct format; every method but the tested one gets a name that sorts before it (methods are processed in
		// name order), so helper creation and reuse happen in the opposite order
		if len(sc.Methods) < 2 {
			return nil
		}
		newID = sc.ID
		ren = func(name string) string {
			if name == sc.Test {
				return name
			}
			return "Aa" + name
		}
	}
	byOld := map[*model.Method]*model.Method{}
	for _, m := range sc.Conv.Methods {
		mm := *m
		mm.Name = ren(m.Name)
		byOld[m] = &mm
		conv.Methods = append(conv.Methods, &mm)
	}
	for _, m := range sc.Methods {
		sm := *m
		sm.Name = ren(m.Name)
		if nm, ok := byOld[m.M]; ok {
			sm.M = nm
		} else if m.M != nil {
			mm := *m.M
			mm.Name = sm.Name
			sm.M = &mm
		}
		n.Methods = append(n.Methods, &sm)
	}
	n.Test = ren(sc.Test)
	n.ConvLines = append([]string{}, sc.ConvLines...)
	switch format {
	case "function":
		n.ID = sc.ID + "F"
		n.ConvLines = append([]string{"output:format function"}, n.ConvLines...) // must precede extend lines
		n.FnExprOverride = "generated." + n.Test
		n.AssertOverride = "var _ = generated." + n.Test
	case "variables":
		n.ID = sc.ID + "V"
		n.Variables = true
		conv.OutPkg = "conv"
	case "present":
		n.ID = sc.ID + "P"
		n.Present = true
	case "noise":
		n.ID = sc.ID + "N"
		n.ConvLines = append([]string{"update:ignoreZeroValueField", "default:update"}, n.ConvLines...)
		noise := func(st *model.Settings) {
			st.ZeroBasic, st.ZeroStruct, st.ZeroNillable, st.DefaultUpdate = true, true, true, true
		}
		noise(&conv.Set)
		for _, m := range conv.Methods {
			noise(&m.Set)
		}
		for _, m := range n.Methods {
			if m.M != nil {
				noise(&m.M.Set)
			}
		}
	case "reordered":
		n.ID = sc.ID
	case "variables-moved":
		// the variables stay in package conv, the generated init functions live in another package
		n.ID = sc.ID + "M"
		n.Variables = true
		n.ConvLines = append([]string{"output:file ./genv/v_gen.go", "output:package vx/conv/genv"}, n.ConvLines...)
		conv.OutPkg = "conv/genv"
		n.BlankImports = []string{"conv/genv"}
		n.OutFile = "conv/genv/v_gen.go"
	}
	return &n
}

func hasOutputLine(lines []string) bool {
	for _, l := range lines {
		if strings.HasPrefix(l, "output:") {
			return true
		}
	}
	return false
}

func reformatAll(scs []*Scenario, format string) []*Scenario {
	var out []*Scenario
	for _, sc := range scs {
		if r := reformat(sc, format); r != nil {
			out = append(out, r)
		}
	}
	return out
}
