package checks

import (
	"encoding/json"
	"fmt"
	"sort"

	"verifrt"
)

func mustJSON(v any) string {
	b, _ := json.Marshal(v)
	return string(b)
}

// planFeatures lists structural features of a plan set that known findings refer to.
func planFeatures(ps *rt.PlanSet) []string {
	seen := map[string]bool{}
	var walk func(p *rt.Plan, assign bool)
	walk = func(p *rt.Plan, assign bool) {
		if p == nil {
			return
		}
		switch p.Op {
		case "arr2slice":
			if assign {
				seen["arr2slice@assign"] = true
			} else {
				seen["arr2slice@build"] = true
			}
			walk(p.In, true)
		case "val2ptr":
			if p.In != nil && p.In.Op == "share" {
				seen["val2ptr-of-share"] = true
			}
			seen["pointer-mismatch"] = true
			walk(p.In, false)
		case "ptr2val":
			seen["pointer-mismatch"] = true
			walk(p.In, false)
		case "slice":
			walk(p.In, true)
		case "struct":
			for i := range p.Fields {
				walk(p.Fields[i].Plan, true)
			}
		case "map":
			walk(p.K, false)
			walk(p.V, false)
		default:
			walk(p.In, false)
		}
	}
	walk(ps.Root, false)
	for _, d := range ps.Defs {
		walk(d, false)
	}
	var out []string
	for f := range seen {
		out = append(out, f)
	}
	sort.Strings(out)
	return out
}

func hasFeature(meta map[string]any, f string) bool {
	for _, x := range metaStrings(meta["features"]) {
		if x == f {
			return true
		}
	}
	return false
}

func caseTitle(meta map[string]any) string {
	if i, ok := meta["interface"].(string); ok {
		return i
	}
	return fmt.Sprintf("%v → %v %v", meta["source"], meta["target"], meta["converter_lines"])
}
