package checks

import (
	"bytes"
	"fmt"
	"os"
	"path/filepath"
	"sort"
	"strings"
	"sync"

	"verif/internal/drive"
	"verif/internal/emit"
	"verif/internal/ev"
	"verif/internal/fshist"
)

// ---- sibling product: every ordered pair of converter "units" over one shared set of types, run jointly by the real
// CLI and compared with the runs of each unit alone. A unit is one declared method (signature from a menu that covers
// enums, nested named structs, identical named types, pointers, unexported fields, struct methods, fallible functions,
// context parameters) with at most one setting line of a menu, written on the method or on the converter. Units are
// placed (a) in two packages pa / pb of one run, (b) as two methods of one interface, (c) one of them as a
// goverter:variables block inside the types' own package. Oracle (no model needed): the joint run fails iff one of the
// units fails alone, and with separate output files the bytes each unit receives equal the bytes it receives alone.
// What a method or converter is configured with, and what it made goverter compute, must not reach its sibling. ----

type xsig struct {
	key    string
	params string // parameter list, types qualified for a package other than sh ("sh." is stripped inside package sh)
	result string
	base   []string // method lines every unit of this signature carries
	bconv  []string // converter lines every unit of this signature carries
	tags   string   // named types / features the signature touches (units only interact through what they share)
	home   string   // "" (own package) | "sh" (variables block inside the types' package)
	// uses: signatures whose top-level conversion occurs inside this one (or overlaps with it): as two methods of one
	// interface the declared method is legitimately used by the other, so such pairs are not merged
	uses string
}

type xunit struct {
	sig   xsig
	conv  []string
	meth  []string
	label string
}

func (u xunit) name() string { return u.sig.key + "[" + u.label + "]" }

const xprodTypes = `package sh

import "strconv"

type Col int

const (
	ColRed   Col = 1
	ColBlue  Col = 2
	ColGreen Col = 3
)

type Inner struct {
	Tags []string
	P    *int
	M    map[string]string
}

type In struct {
	Name string
	Age  int
	id   int
}

func (i In) Label() string { return i.Name + "#" }

type InI struct {
	Name  string
	Inner Inner
	L     []Inner
}
type InE struct {
	C Col
	L []Col
}
type InP struct {
	Name *string
	Age  *int
}
type InC struct {
	NAME string
	AGE  int
}
type InM struct{ Name string }
type Lang string
type Amount int

type OutIdent struct{ Ident int }

func Up(s string) string              { return s + "!" }
func AgeErr(a int) (string, error)    { return strconv.Itoa(a), nil }
func WithLang(s string, lang Lang) string { return s + string(lang) }
func NewIn() In                       { return In{id: 7} }
`

const xprodTargets = `package tg

import "vx/sh"

type Col int

const (
	ColRed  Col = 2
	ColBlue Col = 1
)

type Inner struct {
	Tags []string
	P    *int
	M    map[string]string
}
type OutBasic struct {
	Name string
	Age  int
}
type OutI struct {
	Name  string
	Inner Inner
	L     []Inner
}
type OutSame struct {
	Name  string
	Inner sh.Inner
	L     []sh.Inner
}
type OutE struct {
	C Col
	L []Col
}
type OutU struct {
	Name   string
	hidden int
}
type OutL struct{ Label string }
type OutS struct {
	Name string
	Age  string
}
type LangOut string
type Money int

func NewOutBasic() OutBasic { return OutBasic{Name: "dflt", Age: 99} }
`

const xprodFull = `package tf

type Col int

const (
	ColRed   Col = 30
	ColBlue  Col = 20
	ColGreen Col = 10
)

type OutE struct {
	C Col
	L []Col
}
`

const xprodPref = `package tp

type Col int

const (
	PRed     Col = 3
	PBlue    Col = 2
	PGreen   Col = 1
	ColGreen Col = 9
)
`

// tq.Col: the transform line of the menu maps two members, the third one is mapped by its identical name
const xprodQ = `package tq

type Col int

const (
	PRed     Col = 1
	PBlue    Col = 2
	ColGreen Col = 3
)
`

func xprodSigs() []xsig {
	return []xsig{
		{key: "basic", params: "source sh.In", result: "tg.OutBasic", tags: "In OutBasic"},
		{key: "inner", params: "source sh.InI", result: "tg.OutI", tags: "InI Inner", uses: "innerlist"},
		{key: "same", params: "source sh.InI", result: "tg.OutSame", tags: "InI Inner"},
		{key: "innerlist", params: "source []sh.Inner", result: "[]tg.Inner", tags: "Inner"},
		{key: "enumlossy", params: "source sh.InE", result: "tg.OutE", tags: "Col InE", uses: "enumtoplossy"},
		{key: "enumfull", params: "source sh.InE", result: "tf.OutE", tags: "Col InE", uses: "enumtop"},
		{key: "enumtop", params: "source sh.Col", result: "tf.Col", tags: "Col"},
		{key: "enumtoplossy", params: "source sh.Col", result: "tg.Col", tags: "Col"},
		{key: "enumpref", params: "source sh.Col", result: "tp.Col", tags: "Col"},
		{key: "enumq", params: "source sh.Col", result: "tq.Col", tags: "Col"},
		{key: "enummap", params: "source map[sh.Col]sh.Col", result: "map[tf.Col]tf.Col", tags: "Col", uses: "enumtop"},
		{key: "ident", params: "source sh.In", result: "sh.OutIdent", base: []string{"map id Ident"}, tags: "In"},
		{key: "identlocal", params: "source sh.In", result: "sh.OutIdent", base: []string{"map id Ident"}, tags: "In", home: "sh"},
		{key: "ptr", params: "source sh.InP", result: "tg.OutBasic", tags: "OutBasic"},
		{key: "toptr", params: "source sh.In", result: "*tg.OutBasic", tags: "In OutBasic", uses: "basic"},
		{key: "case", params: "source sh.InC", result: "tg.OutBasic", tags: "OutBasic"},
		{key: "missing", params: "source sh.InM", result: "tg.OutBasic", tags: "OutBasic"},
		{key: "unexp", params: "source sh.In", result: "tg.OutU", tags: "In"},
		{key: "label", params: "source sh.In", result: "tg.OutL", tags: "In"},
		{key: "fallible", params: "source sh.In", result: "(tg.OutS, error)", bconv: []string{"extend vx/sh:AgeErr"}, tags: "In"},
		{key: "falliblelist", params: "source []sh.In", result: "([]tg.OutS, error)", bconv: []string{"extend vx/sh:AgeErr"}, tags: "In", uses: "fallible"},
		{key: "ctx", params: "source sh.In, lang sh.Lang", result: "tg.OutBasic", base: []string{"context lang", "map Name | vx/sh:WithLang"}, tags: "In OutBasic lang", uses: "basic toptr update default"},
		{key: "langsrc", params: "lang sh.Lang", result: "tg.LangOut", tags: "lang"},
		{key: "amountsrc", params: "source sh.Amount", result: "tg.Money", tags: "underlying"},
		{key: "update", params: "source sh.In, target *tg.OutBasic", result: "", base: []string{"update target"}, tags: "In OutBasic", uses: "basic toptr"},
		{key: "default", params: "source *sh.In", result: "*tg.OutBasic", base: []string{"default vx/tg:NewOutBasic"}, tags: "In OutBasic", uses: "basic toptr update"},
	}
}

// xprodCore: the signatures of the quick tier.
var xprodCore = map[string]bool{"basic": true, "same": true, "enumlossy": true, "enumfull": true, "enumtop": true, "enumpref": true, "enumq": true,
	"ident": true, "identlocal": true, "ctx": true, "langsrc": true, "fallible": true}

type xsetting struct {
	line   string
	levels string // "m", "c" or "mc"
	tags   string // only meaningful together with signatures carrying one of these tags ("" = any)
}

func xprodSettings() []xsetting {
	return []xsetting{
		{"enum no", "mc", "Col"},
		{"enum:unknown @error", "mc", "Col"},
		{"enum:unknown @panic", "mc", "Col"},
		{"enum:exclude vx/sh:Col", "c", "Col"},
		{"enum:transform regex ^Col(\\w+)$ P$1", "m", "Col"},
		{"enum:map ColGreen ColRed", "m", "Col"},
		{"skipCopySameType", "mc", ""},
		{"ignoreUnexported", "mc", ""},
		{"ignoreMissing", "mc", ""},
		{"matchIgnoreCase", "mc", ""},
		{"useZeroValueOnPointerInconsistency", "mc", ""},
		{"useUnderlyingTypeMethods", "mc", "underlying"},
		{"wrapErrors", "mc", ""},
		{"update:ignoreZeroValueField", "mc", ""},
		{"default:update", "mc", ""},
		{"extend vx/sh:Up", "c", ""},
		{"map Name | vx/sh:Up", "m", "OutBasic"},
		{"ignore Name", "m", "OutBasic"},
		{"autoMap Name", "m", ""},
		{"arg:context:regex ^lang$", "mc", "lang"},
	}
}

func shareTag(a, b string) bool {
	for _, x := range strings.Fields(a) {
		for _, y := range strings.Fields(b) {
			if x == y {
				return true
			}
		}
	}
	return false
}

// xprodUnits: every signature plain, and with each applicable setting at each allowed level.
func xprodUnits() []xunit {
	var out []xunit
	for _, s := range xprodSigs() {
		// enums need a policy for unknown values to be convertible at all; the line is harmless elsewhere
		s.bconv = append([]string{"enum:unknown @ignore"}, s.bconv...)
		out = append(out, xunit{sig: s, label: "plain"})
		for _, st := range xprodSettings() {
			if st.tags != "" && !shareTag(st.tags, s.tags) {
				continue
			}
			if strings.Contains(st.levels, "m") {
				out = append(out, xunit{sig: s, meth: []string{st.line}, label: st.line + "@method"})
			}
			if strings.Contains(st.levels, "c") {
				out = append(out, xunit{sig: s, conv: []string{st.line}, label: st.line + "@converter"})
			}
		}
	}
	return out
}

const xprodImports = "import (\n\t\"vx/sh\"\n\t\"vx/tf\"\n\t\"vx/tg\"\n\t\"vx/tp\"\n\t\"vx/tq\"\n)\n\nvar (\n\t_ sh.In\n\t_ tf.Col\n\t_ tg.Col\n\t_ tp.Col\n\t_ tq.Col\n)\n\n"

func directives(lines []string, indent string) string {
	var b strings.Builder
	for _, l := range lines {
		b.WriteString(indent + "// goverter:" + l + "\n")
	}
	return b.String()
}

// renderOwn: the unit as an interface converter in its own package.
func (u xunit) renderOwn(pkg, method string) string {
	return "package " + pkg + "\n\n" + xprodImports + "// goverter:converter\n" + directives(append(append([]string{}, u.sig.bconv...), u.conv...), "") +
		"type C interface {\n" + directives(append(append([]string{}, u.sig.base...), u.meth...), "\t") + "\t" + method + "(" + u.sig.params + ") " + u.sig.result + "\n}\n"
}

// renderLocal: the unit as a goverter:variables block inside package sh (file of its own).
func (u xunit) renderLocal(varName string) string {
	unq := func(s string) string { return strings.ReplaceAll(s, "sh.", "") }
	return "package sh\n\n// goverter:variables\n" +
		directives(append(append([]string{}, u.sig.bconv...), u.conv...), "") + "var (\n" +
		directives(append(append([]string{}, u.sig.base...), u.meth...), "\t") + "\t" + varName + " func(" + unq(u.sig.params) + ") " + unq(u.sig.result) + "\n)\n"
}

func xprodBase() map[string]string {
	return map[string]string{"sh/sh.go": xprodTypes, "tg/tg.go": xprodTargets, "tf/tf.go": xprodFull, "tp/tp.go": xprodPref, "tq/tq.go": xprodQ}
}

type xres struct {
	exit   int
	files  map[string][]byte
	stderr string
}

// RunXProd explores the sibling product. only filters the signatures by tag ("" = all). Violations are filed under the
// property of the run.
func RunXProd(run *ev.Run, only string) int {
	base, err := os.MkdirTemp(emit.ScratchRoot(), "verif-xprod-")
	if err != nil {
		run.Harness = true
		return 0
	}
	defer os.RemoveAll(base)
	bin := drive.GoverterBin()
	units := xprodUnits()
	var mu sync.Mutex
	seq := 0
	gen := func(files map[string]string, pats ...string) *xres {
		mu.Lock()
		seq++
		dir := filepath.Join(base, fmt.Sprintf("r%d", seq))
		mu.Unlock()
		c := xconvCase{files: files}
		t := c.tree()
		after, r, err := fshist.RunIn(bin, t, dir, "", nil, append([]string{"gen"}, pats...)...)
		os.RemoveAll(dir)
		if err != nil || r == nil || r.Exit < 0 { // a run ended by a signal or the deadline gives no verdict
			return nil
		}
		created, changed, _ := fshist.Diff(t, after)
		res := &xres{exit: r.Exit, files: map[string][]byte{}, stderr: r.Stderr}
		for _, f := range append(created, changed...) {
			if !after[f].Dir {
				res.files[f] = after[f].Data
			}
		}
		return res
	}
	with := func(extra map[string]string) map[string]string {
		m := xprodBase()
		for k, v := range extra {
			m[k] = v
		}
		return m
	}
	// placement of a unit in slot i (0 = processed first by name / pattern order)
	type placed struct {
		file, content, pat string
	}
	place := func(u xunit, slot int) placed {
		if u.sig.home == "sh" {
			f := fmt.Sprintf("sh/u%d.go", slot)
			return placed{f, u.renderLocal([]string{"ConvA", "ConvZ"}[slot]), "./sh"}
		}
		pkg := []string{"pa", "pb"}[slot]
		return placed{pkg + "/" + pkg + ".go", u.renderOwn(pkg, "Convert"), "./" + pkg}
	}
	// alone results, computed on demand and cached
	type akey struct {
		u    string
		slot int
		kind string
	}
	alone := map[akey]*xres{}
	var amu sync.Mutex
	getAlone := func(u xunit, slot int, kind string, mk func() (map[string]string, []string)) *xres {
		k := akey{u.name(), slot, kind}
		amu.Lock()
		r, ok := alone[k]
		amu.Unlock()
		if ok {
			return r
		}
		files, pats := mk()
		r = gen(files, pats...)
		amu.Lock()
		alone[k] = r
		amu.Unlock()
		return r
	}
	type pair struct{ a, b xunit }
	var pairs []pair
	thorough := run.Thorough()
	for _, a := range units {
		for _, b := range units {
			if only != "" && !(shareTag(only, a.sig.tags) && shareTag(only, b.sig.tags)) {
				continue
			}
			if !shareTag(a.sig.tags, b.sig.tags) {
				continue // units only interact through what they share
			}
			aPlain, bPlain := a.label == "plain", b.label == "plain"
			if aPlain && bPlain && a.sig.key == b.sig.key {
				continue
			}
			// thorough: one of the two is plain, or both carry the same setting line (a cache keyed by the line);
			// quick: additionally only the core signatures and method-level settings (converter-level lines and the
			// remaining signatures add ~14000 runs of the CLI)
			if !(aPlain || bPlain || a.label == b.label) {
				continue
			}
			if !thorough && !(xprodCore[a.sig.key] && xprodCore[b.sig.key] && len(a.conv) == 0 && len(b.conv) == 0 && (aPlain != bPlain || a.sig.key != b.sig.key && a.label == b.label && strings.HasPrefix(a.label, "enum:transform"))) {
				continue
			}
			if a.name() == b.name() && a.sig.home == "sh" {
				continue
			}
			pairs = append(pairs, pair{a, b})
		}
	}
	if os.Getenv("VERIF_XPROD_COUNT") != "" {
		fmt.Fprintln(os.Stderr, "xprod units", len(units), "pairs", len(pairs))
		return 0
	}
	var wg sync.WaitGroup
	sem := make(chan bool, nWorkers)
	nruns := 0
	report := func(site, symptom, detail string, desc map[string]any) {
		mu.Lock()
		run.Report(ev.Violation{Site: site, Symptom: symptom, Detail: detail, Case: desc})
		mu.Unlock()
	}
	for _, p := range pairs {
		wg.Add(1)
		sem <- true
		go func(p pair) {
			defer wg.Done()
			defer func() { <-sem }()
			a, b := p.a, p.b
			n := 0
			// (a) two declarations of one run
			pa, pb := place(a, 0), place(b, 1)
			ra := getAlone(a, 0, "decl", func() (map[string]string, []string) {
				return with(map[string]string{pa.file: pa.content}), []string{pa.pat}
			})
			rb := getAlone(b, 1, "decl", func() (map[string]string, []string) {
				return with(map[string]string{pb.file: pb.content}), []string{pb.pat}
			})
			pats := []string{pa.pat}
			if pb.pat != pa.pat {
				pats = append(pats, pb.pat)
			}
			files := with(map[string]string{pa.file: pa.content, pb.file: pb.content})
			var joint *xres
			if ra != nil && rb != nil && !(ra.exit != 0 && rb.exit != 0) { // two units that fail alone show nothing together
				joint = gen(files, pats...)
				n++
			}
			if ra != nil && rb != nil && joint != nil {
				desc := map[string]any{"kind": "xprod", "placement": "two-declarations", "first": a.name(), "second": b.name(), "patterns": pats,
					"files": map[string]string{pa.file: pa.content, pb.file: pb.content}}
				site := "xprod:decl:" + a.name() + "+" + b.name()
				anyFail := ra.exit != 0 || rb.exit != 0
				mu.Lock()
				run.Outcome(fmt.Sprintf("xprod:decl:joint-exit:%d/alone:%d,%d", joint.exit, ra.exit, rb.exit))
				mu.Unlock()
				if (joint.exit != 0) != anyFail {
					report(site+"|exit", "joint-run-outcome-differs-from-separate-runs",
						fmt.Sprintf("units %s (first) and %s (second): goverter gen %v exits %d although the runs of each unit alone exit %d and %d\n%s", a.name(), b.name(), pats, joint.exit, ra.exit, rb.exit, firstN(joint.stderr, 600)), desc)
				} else if joint.exit == 0 && pa.pat != pb.pat {
					want := map[string][]byte{}
					for f, d := range ra.files {
						want[f] = d
					}
					for f, d := range rb.files {
						want[f] = d
					}
					var names []string
					for f := range want {
						names = append(names, f)
					}
					for f := range joint.files {
						if _, ok := want[f]; !ok {
							names = append(names, f)
						}
					}
					sort.Strings(names)
					for _, f := range names {
						if !bytes.Equal(joint.files[f], want[f]) {
							report(site+"|bytes", "sibling-converter-changes-output",
								fmt.Sprintf("units %s (first) and %s (second): %s differs between the joint run (gen %v) and the run of its unit alone\n--- alone:\n%s\n--- joint:\n%s", a.name(), b.name(), f, pats, firstN(string(want[f]), 1500), firstN(string(joint.files[f]), 1500)), desc)
							break
						}
					}
				}
			}
			// (b) two methods of one interface: only method-level settings, different signatures, no variables homes
			if len(a.conv) == 0 && len(b.conv) == 0 && a.sig.key != b.sig.key && a.sig.home == "" && b.sig.home == "" &&
				a.sig.params+"|"+a.sig.result != b.sig.params+"|"+b.sig.result && !shareTag(a.sig.uses, b.sig.key) && !shareTag(b.sig.uses, a.sig.key) && strings.Join(a.sig.bconv, "|") == strings.Join(b.sig.bconv, "|") {
				one := func(u xunit, method string) string { return u.renderOwn("pm", method) }
				both := func() string {
					return "package pm\n\n" + xprodImports + "// goverter:converter\n" + directives(a.sig.bconv, "") + "type C interface {\n" +
						directives(append(append([]string{}, a.sig.base...), a.meth...), "\t") + "\tAa(" + a.sig.params + ") " + a.sig.result + "\n" +
						directives(append(append([]string{}, b.sig.base...), b.meth...), "\t") + "\tZz(" + b.sig.params + ") " + b.sig.result + "\n}\n"
				}
				ma := getAlone(a, 0, "method", func() (map[string]string, []string) {
					return with(map[string]string{"pm/pm.go": one(a, "Aa")}), []string{"./pm"}
				})
				mb := getAlone(b, 1, "method", func() (map[string]string, []string) {
					return with(map[string]string{"pm/pm.go": one(b, "Zz")}), []string{"./pm"}
				})
				src := both()
				var jm *xres
				if ma != nil && mb != nil && !(ma.exit != 0 && mb.exit != 0) {
					jm = gen(with(map[string]string{"pm/pm.go": src}), "./pm")
					n++
				}
				if ma != nil && mb != nil && jm != nil {
					mu.Lock()
					run.Outcome(fmt.Sprintf("xprod:method:joint-exit:%d/alone:%d,%d", jm.exit, ma.exit, mb.exit))
					mu.Unlock()
					if (jm.exit != 0) != (ma.exit != 0 || mb.exit != 0) {
						report("xprod:method:"+a.name()+"+"+b.name()+"|exit", "sibling-method-changes-outcome",
							fmt.Sprintf("methods Aa = %s and Zz = %s of one interface: goverter gen ./pm exits %d although an interface with only Aa exits %d and one with only Zz exits %d\n%s", a.name(), b.name(), jm.exit, ma.exit, mb.exit, firstN(jm.stderr, 600)),
							map[string]any{"kind": "xprod", "placement": "two-methods", "first": a.name(), "second": b.name(), "patterns": []string{"./pm"}, "files": map[string]string{"pm/pm.go": src}})
					}
				}
			}
			mu.Lock()
			nruns += n
			mu.Unlock()
		}(p)
	}
	wg.Wait()
	amu.Lock()
	nruns += len(alone)
	nAlone, okAlone := len(alone), 0
	for _, r := range alone {
		if r != nil && r.exit == 0 {
			okAlone++
		}
	}
	amu.Unlock()
	run.Cov["sibling_product_units"] = len(units)
	run.Cov["sibling_product_pairs"] = len(pairs)
	run.Cov["sibling_product_runs"] = nruns
	run.Cov["sibling_product_alone_runs"] = nAlone
	run.Cov["sibling_product_alone_accepted"] = okAlone
	return nruns
}
