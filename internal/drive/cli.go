package drive

import (
	"bytes"
	"context"
	"os"
	"os/exec"
	"time"
)

// CLIResult is what a run of the real goverter binary produced.
type CLIResult struct {
	Exit    int
	Stdout  string
	Stderr  string
	Timeout bool
}

// GoverterBin is the path of the CLI built from /repo's working tree by vcheck.sh.
func GoverterBin() string {
	if p := os.Getenv("VERIF_GOVERTER"); p != "" {
		return p
	}
	return "/verif/bin/goverter"
}

// RunCLI executes the goverter binary in dir.
func RunCLI(dir string, timeout time.Duration, args ...string) CLIResult {
	ctx, cancel := context.WithTimeout(context.Background(), timeout)
	defer cancel()
	cmd := exec.CommandContext(ctx, GoverterBin(), args...)
	cmd.Dir = dir
	cmd.Env = append(os.Environ(), "GOFLAGS=-mod=mod", "GOPROXY=off", "GOSUMDB=off", "GOTOOLCHAIN=local")
	var so, se bytes.Buffer
	cmd.Stdout, cmd.Stderr = &so, &se
	err := cmd.Run()
	r := CLIResult{Stdout: so.String(), Stderr: se.String()}
	if ctx.Err() != nil {
		r.Timeout = true
		r.Exit = -1
		return r
	}
	if err != nil {
		if ee, ok := err.(*exec.ExitError); ok {
			r.Exit = ee.ExitCode()
		} else {
			r.Exit = -2
			r.Stderr += err.Error()
		}
	}
	return r
}

// RunGo runs the go tool in dir with the offline environment.
func RunGo(dir string, timeout time.Duration, args ...string) CLIResult {
	ctx, cancel := context.WithTimeout(context.Background(), timeout)
	defer cancel()
	cmd := exec.CommandContext(ctx, "go", args...)
	cmd.Dir = dir
	cmd.Env = append(os.Environ(), "GOFLAGS=-mod=mod", "GOPROXY=off", "GOSUMDB=off", "GOTOOLCHAIN=local")
	var so, se bytes.Buffer
	cmd.Stdout, cmd.Stderr = &so, &se
	err := cmd.Run()
	r := CLIResult{Stdout: so.String(), Stderr: se.String()}
	if ctx.Err() != nil {
		r.Timeout = true
		r.Exit = -1
		return r
	}
	if err != nil {
		if ee, ok := err.(*exec.ExitError); ok {
			r.Exit = ee.ExitCode()
		} else {
			r.Exit = -2
			r.Stderr += err.Error()
		}
	}
	return r
}
