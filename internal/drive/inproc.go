// Package drive runs the real goverter: in-process (one converter at a time, shared package
// loader, hook H2) and as the real CLI binary in a subprocess.
package drive

import (
	"fmt"
	"runtime/debug"
	"strings"

	"github.com/jmattheis/goverter/comments"
	"github.com/jmattheis/goverter/config"
	"github.com/jmattheis/goverter/generator"
)

type Kind int

const (
	Files Kind = iota
	Error
	Panic
)

func (k Kind) String() string { return [...]string{"files", "error", "panic"}[k] }

type Outcome struct {
	Kind  Kind
	Files map[string][]byte
	Diag  string
}

// Session is one loaded scratch module.
type Session struct {
	Dir  string
	Raws map[string]config.RawConverter // by interface name ("" entries by file for variables)
	All  []config.RawConverter
	sess *config.VerifSession
}

// Lines to inject for one generation.
type Inject struct {
	Global    []string
	Converter []string
	Method    map[string][]string
}

// Open loads the packages matched by patterns in dir. discover lists extra setting lines that are only used
// for discovering packages to load (extend/map/default/output:file targets of later injections).
func Open(dir string, patterns []string, discover []string) (*Session, error) {
	raws, err := comments.ParseDocs(comments.ParseDocsConfig{BuildTags: "goverter", PackagePattern: patterns, WorkingDir: dir})
	if err != nil {
		return nil, err
	}
	s := &Session{Dir: dir, Raws: map[string]config.RawConverter{}, All: raws}
	for _, r := range raws {
		s.Raws[r.InterfaceName] = r
	}
	sess, err := config.VerifNewSession(&config.Raw{
		BuildTags: "goverter", WorkDir: dir, Converters: raws,
		Global: config.RawLines{Lines: discover, Location: "discover"},
	})
	if err != nil {
		return nil, err
	}
	s.sess = sess
	return s, nil
}

// Gen runs parse + generate for the single converter rc with injected lines.
func (s *Session) Gen(rc config.RawConverter, inj *Inject) (out Outcome) {
	defer func() {
		if r := recover(); r != nil {
			out = Outcome{Kind: Panic, Diag: fmt.Sprintf("panic: %v\n%s", r, trimStack(debug.Stack()))}
		}
	}()
	global := config.RawLines{Location: "command line (-g, -global)"}
	if inj != nil {
		global.Lines = inj.Global
		if len(inj.Converter) > 0 {
			rc.Converter.Lines = append(append([]string{}, rc.Converter.Lines...), inj.Converter...)
		}
		if len(inj.Method) > 0 {
			m := map[string]config.RawLines{}
			for k, v := range rc.Methods {
				m[k] = v
			}
			for k, add := range inj.Method {
				rl := m[k]
				rl.Lines = append(append([]string{}, rl.Lines...), add...)
				m[k] = rl
			}
			rc.Methods = m
		}
	}
	conv, err := s.sess.Parse(rc, global)
	if err != nil {
		return Outcome{Kind: Error, Diag: err.Error()}
	}
	files, err := generator.Generate([]*config.Converter{conv}, generator.Config{BuildConstraint: "!goverter"})
	if err != nil {
		if len(files) != 0 {
			return Outcome{Kind: Error, Diag: err.Error(), Files: files}
		}
		return Outcome{Kind: Error, Diag: err.Error()}
	}
	return Outcome{Kind: Files, Files: files}
}

func trimStack(b []byte) string {
	lines := strings.Split(string(b), "\n")
	var keep []string
	for _, l := range lines {
		if strings.Contains(l, "goverter") {
			keep = append(keep, strings.TrimSpace(l))
		}
		if len(keep) >= 8 {
			break
		}
	}
	return strings.Join(keep, "\n")
}

// FindVar returns the goverter:variables raw converter that declares the function variable name.
func (s *Session) FindVar(name string) (config.RawConverter, bool) {
	for _, r := range s.All {
		if r.InterfaceName != "" {
			continue
		}
		if _, ok := r.Methods[name]; ok {
			return r, true
		}
	}
	return config.RawConverter{}, false
}
