// Package emit writes scratch Go modules for goverter to work on.
package emit

import (
	"os"
	"path/filepath"
	"sort"

	"verif/internal/space"
)

type Module struct {
	Dir   string
	Files map[string]string
}

// ScratchRoot is the per-process scratch directory (removed by Cleanup).
func ScratchRoot() string {
	base := os.Getenv("VERIF_SCRATCH")
	if base == "" {
		base = os.TempDir()
	}
	return base
}

func NewModule(prefix string) (*Module, error) {
	dir, err := os.MkdirTemp(ScratchRoot(), "verif-"+prefix+"-")
	if err != nil {
		return nil, err
	}
	m := &Module{Dir: dir, Files: map[string]string{}}
	m.Add("go.mod", "module "+space.ModulePath+"\n\ngo 1.22\n")
	return m, nil
}

func (m *Module) Add(path, content string) { m.Files[path] = content }

func (m *Module) Write() error {
	var names []string
	for n := range m.Files {
		names = append(names, n)
	}
	sort.Strings(names)
	for _, n := range names {
		p := filepath.Join(m.Dir, n)
		if err := os.MkdirAll(filepath.Dir(p), 0o755); err != nil {
			return err
		}
		if err := os.WriteFile(p, []byte(m.Files[n]), 0o644); err != nil {
			return err
		}
	}
	return nil
}

func (m *Module) Remove() {
	if os.Getenv("VERIF_KEEP") != "" {
		return
	}
	_ = os.RemoveAll(m.Dir)
}

// AddUniverse writes the "in" and "out" packages of a universe (all declarations, grouped by package).
func (m *Module) AddUniverse(u *space.Universe) {
	by := map[string][]*space.Decl{}
	for _, d := range u.Decls {
		by[d.Pkg] = append(by[d.Pkg], d)
	}
	for pkg, ds := range by {
		m.Add(pkg+"/"+pkg+".go", space.PackageSource(pkg, ds, ""))
	}
}
