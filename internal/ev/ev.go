// Package ev writes evidence files, replay artefacts and VIOLATION / KNOWN-FINDING lines.
package ev

import (
	"crypto/sha1"
	"encoding/hex"
	"encoding/json"
	"fmt"
	"os"
	"path/filepath"
	"sort"
	"strconv"
	"strings"
	"sync"
	"time"
)

var Root = rootDir()

func rootDir() string {
	if r := os.Getenv("VERIF_ROOT"); r != "" {
		return r
	}
	return "/verif"
}

type Evidence struct {
	PropertyID  string         `json:"property_id"`
	Tier        string         `json:"tier"`
	Seed        int            `json:"seed"`
	Level       string         `json:"level"`
	Coverage    map[string]any `json:"coverage"`
	Assumptions []string       `json:"assumptions"`
	WallS       float64        `json:"wall_s"`
	Violations  int            `json:"violations"`
}

// Finding is an entry of known_findings.json.
type Finding struct {
	Property string `json:"property"`
	ID       string `json:"id"`
	Status   string `json:"status"` // "known" or "fixed"
	Site     string `json:"site"`   // machine-matched site key
	Symptom  string `json:"symptom"`
	What     string `json:"what"`
	Commit   string `json:"commit,omitempty"`
}

// Violation is one failing case.
type Violation struct {
	Property string         `json:"property"`
	Site     string         `json:"site"`    // canonical site key (for known-finding attribution and dedup)
	Symptom  string         `json:"symptom"` // short symptom class
	Detail   string         `json:"detail"`
	Case     map[string]any `json:"case"` // replayable descriptor
}

type Run struct {
	mu        sync.Mutex
	Prop      string
	Tier      string
	Seed      int
	start     time.Time
	Cov       map[string]any
	Assume    []string
	viol      []Violation
	known     map[string]int
	findings  []Finding
	Outcomes  map[string]int
	samples   []any
	maxSample int
	Harness   bool // a harness error occurred: exit 2 without VIOLATION
	// OnlySite/OnlySymptom restrict reporting to one (site, symptom) pair (replay mode; evidence is not written)
	OnlySite, OnlySymptom string
}

func Start(prop string) *Run {
	tier := os.Getenv("VERIF_TIER")
	if tier == "" {
		tier = "quick"
	}
	seed, _ := strconv.Atoi(os.Getenv("VERIF_SEED"))
	r := &Run{Prop: prop, Tier: tier, Seed: seed, start: time.Now(), Cov: map[string]any{}, known: map[string]int{}, Outcomes: map[string]int{}, maxSample: 6}
	b, err := os.ReadFile(filepath.Join(Root, "known_findings.json"))
	if err == nil {
		_ = json.Unmarshal(b, &r.findings)
	}
	return r
}

func (r *Run) Thorough() bool { return r.Tier == "thorough" }

func (r *Run) Outcome(class string) {
	r.mu.Lock()
	r.Outcomes[class]++
	r.mu.Unlock()
}

func (r *Run) OutcomeN(class string, n int) {
	r.mu.Lock()
	r.Outcomes[class] += n
	r.mu.Unlock()
}

func (r *Run) Sample(s any) {
	r.mu.Lock()
	if len(r.samples) < r.maxSample {
		r.samples = append(r.samples, s)
	}
	r.mu.Unlock()
}

// Report records a violation unless a *known* finding with matching site+symptom covers it.
func (r *Run) Report(v Violation) {
	r.mu.Lock()
	defer r.mu.Unlock()
	v.Property = r.Prop
	if r.OnlySite != "" && (v.Site != r.OnlySite || v.Symptom != r.OnlySymptom) {
		return
	}
	for _, f := range r.findings {
		if f.Status == "known" && f.Property == r.Prop && f.Site == v.Site && f.Symptom == v.Symptom {
			r.known[f.ID]++
			return
		}
	}
	for _, o := range r.viol {
		if o.Site == v.Site && o.Symptom == v.Symptom {
			return // one report per (site, symptom)
		}
	}
	r.viol = append(r.viol, v)
}

func (r *Run) NViolations() int { r.mu.Lock(); defer r.mu.Unlock(); return len(r.viol) }

// Finish writes evidence, prints lines and returns the process exit code.
func (r *Run) Finish() int {
	r.mu.Lock()
	defer r.mu.Unlock()
	ids := make([]string, 0, len(r.known))
	for id := range r.known {
		ids = append(ids, id)
	}
	sort.Strings(ids)
	for _, id := range ids {
		for _, f := range r.findings {
			if f.ID == id {
				fmt.Printf("KNOWN-FINDING: property=%s %s (%s; %d case(s) this run)\n", r.Prop, f.What, f.ID, r.known[id])
			}
		}
	}
	for _, v := range r.viol {
		b, _ := json.MarshalIndent(v, "", " ")
		h := sha1.Sum(b)
		dir := filepath.Join(Root, "replays", r.Prop)
		_ = os.MkdirAll(dir, 0o755)
		p := filepath.Join(dir, hex.EncodeToString(h[:6])+".json")
		_ = os.WriteFile(p, b, 0o644)
		if sh, ok := v.Case["repro_sh"].(string); ok && sh != "" {
			_ = os.WriteFile(strings.TrimSuffix(p, ".json")+".sh", []byte(sh), 0o755)
		}
		fmt.Printf("VIOLATION property=%s replay=%s\n", r.Prop, p)
		fmt.Printf("  site=%s symptom=%s\n  %s\n", v.Site, v.Symptom, strings.ReplaceAll(firstN(v.Detail, 1500), "\n", "\n  "))
	}
	cov := r.Cov
	if len(r.samples) > 0 {
		cov["samples"] = r.samples
	}
	cov["outcomes"] = r.Outcomes
	cov["known_findings_seen"] = r.known
	if len(r.Outcomes) < 2 {
		fmt.Printf("VACUOUS: property=%s only %d outcome class(es) observed: %v\n", r.Prop, len(r.Outcomes), r.Outcomes)
	}
	if r.Assume == nil {
		r.Assume = []string{}
	}
	r.Assume = append(r.Assume, "Go toolchain as installed (go1.23); go list / x/tools/go/packages / jennifer behave deterministically",
		"finite alphabets and bounds as listed under coverage; nothing outside them is claimed")
	e := Evidence{PropertyID: r.Prop, Tier: r.Tier, Seed: r.Seed, Level: "model_checking", Coverage: cov,
		Assumptions: r.Assume, WallS: time.Since(r.start).Seconds(), Violations: len(r.viol)}
	b, _ := json.MarshalIndent(e, "", " ")
	_ = os.MkdirAll(filepath.Join(Root, "evidence"), 0o755)
	_ = os.WriteFile(filepath.Join(Root, "evidence", r.Prop+".json"), b, 0o644)
	fmt.Printf("%s tier=%s wall=%.1fs violations=%d known=%d outcomes=%v\n", r.Prop, r.Tier, e.WallS, len(r.viol), len(r.known), r.Outcomes)
	if len(r.viol) > 0 {
		return 1
	}
	if r.Harness {
		fmt.Printf("HARNESS-ERROR: property=%s the check could not complete (see stderr); no verdict\n", r.Prop)
		return 2
	}
	if len(r.Outcomes) < 2 {
		return 3
	}
	return 0
}

func firstN(s string, n int) string {
	if len(s) > n {
		return s[:n] + "…"
	}
	return s
}
