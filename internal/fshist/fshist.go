// Package fshist is engine E3: explicit-state breadth-first search over file-tree histories, with the real
// goverter CLI as transition function.
package fshist

import (
	"bytes"
	"crypto/sha1"
	"encoding/hex"
	"fmt"
	"os"
	"os/exec"
	"path/filepath"
	"sort"
	"strings"
	"time"
)

// Entry is one file or directory of a tree.
type Entry struct {
	Data []byte
	Mode os.FileMode
	Dir  bool
}

// Tree maps slash-separated relative paths to entries.
type Tree map[string]Entry

// Read snapshots root.
func Read(root string) (Tree, error) {
	t := Tree{}
	err := filepath.Walk(root, func(p string, info os.FileInfo, err error) error {
		if err != nil {
			return err
		}
		rel, _ := filepath.Rel(root, p)
		if rel == "." {
			return nil
		}
		rel = filepath.ToSlash(rel)
		if info.IsDir() {
			t[rel] = Entry{Dir: true, Mode: info.Mode().Perm()}
			return nil
		}
		b, err := os.ReadFile(p)
		if err != nil {
			return err
		}
		t[rel] = Entry{Data: b, Mode: info.Mode().Perm()}
		return nil
	})
	return t, err
}

// Write materialises the tree under root (root must be empty or absent).
func (t Tree) Write(root string) error {
	var names []string
	for n := range t {
		names = append(names, n)
	}
	sort.Strings(names)
	if err := os.MkdirAll(root, 0o755); err != nil {
		return err
	}
	for _, n := range names {
		e := t[n]
		p := filepath.Join(root, filepath.FromSlash(n))
		if e.Dir {
			if err := os.MkdirAll(p, 0o755); err != nil {
				return err
			}
			_ = os.Chmod(p, e.Mode)
			continue
		}
		if err := os.MkdirAll(filepath.Dir(p), 0o755); err != nil {
			return err
		}
		if err := os.WriteFile(p, e.Data, 0o644); err != nil {
			return err
		}
		_ = os.Chmod(p, e.Mode)
	}
	return nil
}

func (t Tree) Clone() Tree {
	n := make(Tree, len(t))
	for k, v := range t {
		n[k] = v
	}
	return n
}

// Key is the canonical form: sorted relative paths + modes + content hashes. Two trees with equal keys have the
// same futures because goverter (and go list) read nothing else from the tree.
func (t Tree) Key() string {
	var names []string
	for n := range t {
		names = append(names, n)
	}
	sort.Strings(names)
	h := sha1.New()
	for _, n := range names {
		e := t[n]
		fmt.Fprintf(h, "%s\x00%v\x00%o\x00", n, e.Dir, e.Mode)
		h.Write(e.Data)
		h.Write([]byte{0})
	}
	return hex.EncodeToString(h.Sum(nil))
}

// Diff lists created, changed and deleted paths from a to b.
func Diff(a, b Tree) (created, changed, deleted []string) {
	for n, eb := range b {
		ea, ok := a[n]
		switch {
		case !ok:
			created = append(created, n)
		case ea.Dir != eb.Dir || !bytes.Equal(ea.Data, eb.Data) || ea.Mode != eb.Mode:
			changed = append(changed, n)
		}
	}
	for n := range a {
		if _, ok := b[n]; !ok {
			deleted = append(deleted, n)
		}
	}
	sort.Strings(created)
	sort.Strings(changed)
	sort.Strings(deleted)
	return
}

// Run is the result of one CLI invocation.
type Run struct {
	Args    []string
	Dir     string
	Exit    int
	Stdout  string
	Stderr  string
	Timeout bool
}

// Exec runs the goverter binary with umask 0 in dir (relative to root).
func Exec(bin, root, dir string, env []string, args ...string) Run {
	return ExecTimeout(bin, root, dir, env, 5*time.Minute, args...)
}

// ExecTimeout is Exec with an explicit deadline (the process is killed and Timeout is set when it passes).
func ExecTimeout(bin, root, dir string, env []string, limit time.Duration, args ...string) Run {
	var q []string
	for _, a := range args {
		q = append(q, "'"+strings.ReplaceAll(a, "'", `'\''`)+"'")
	}
	cmd := exec.Command("sh", "-c", "umask 0; exec '"+bin+"' "+strings.Join(q, " "))
	cmd.Dir = filepath.Join(root, dir)
	cmd.Env = append(append(os.Environ(), "GOFLAGS=-mod=mod", "GOPROXY=off", "GOSUMDB=off", "GOTOOLCHAIN=local"), env...)
	var so, se bytes.Buffer
	cmd.Stdout, cmd.Stderr = &so, &se
	done := make(chan error, 1)
	r := Run{Args: args, Dir: dir}
	if err := cmd.Start(); err != nil {
		r.Exit, r.Stderr = -2, err.Error()
		return r
	}
	go func() { done <- cmd.Wait() }()
	select {
	case err := <-done:
		if err != nil {
			if ee, ok := err.(*exec.ExitError); ok {
				r.Exit = ee.ExitCode()
			} else {
				r.Exit = -2
			}
		}
	case <-time.After(limit):
		_ = cmd.Process.Kill()
		<-done
		r.Timeout, r.Exit = true, -1
	}
	r.Stdout, r.Stderr = so.String(), se.String()
	return r
}

// Event is one transition of a world.
type Event struct {
	Name string
	// Enabled reports whether the event applies in state t.
	Enabled func(t Tree) bool
	// Apply returns the successor tree; run is non-nil when the event invoked the CLI.
	Apply func(t Tree, scratch string) (Tree, *Run, error)
}

// World is a finite menu of events over an initial tree with an invariant checked after every transition.
type World struct {
	Name   string
	Init   Tree
	Events []Event
	Depth  int
	// Check is called after every transition; it returns problems (site, detail).
	Check func(history []string, before, after Tree, run *Run) []Problem
}

type Problem struct {
	Site   string
	Detail string
}

type Stats struct {
	States      int
	Transitions int
	Runs        int
	MaxDepth    int
	Problems    []Found
	Sample      []string
}

type Found struct {
	Problem
	History []string
}

// Explore performs the breadth-first search. Successor = predecessor tree + one event; states are deduplicated on Key.
func Explore(w World, scratchBase string) (Stats, error) {
	type node struct {
		tree Tree
		hist []string
	}
	st := Stats{}
	seen := map[string]bool{w.Init.Key(): true}
	frontier := []node{{w.Init, nil}}
	st.States = 1
	n := 0
	for depth := 0; depth < w.Depth && len(frontier) > 0; depth++ {
		var next []node
		for _, nd := range frontier {
			for _, ev := range w.Events {
				if ev.Enabled != nil && !ev.Enabled(nd.tree) {
					continue
				}
				n++
				scratch := filepath.Join(scratchBase, fmt.Sprintf("s%d", n))
				after, run, err := ev.Apply(nd.tree.Clone(), scratch)
				_ = os.RemoveAll(scratch)
				if err != nil {
					return st, fmt.Errorf("world %s event %s: %w", w.Name, ev.Name, err)
				}
				st.Transitions++
				if run != nil {
					st.Runs++
				}
				hist := append(append([]string{}, nd.hist...), ev.Name)
				if w.Check != nil {
					for _, p := range w.Check(hist, nd.tree, after, run) {
						st.Problems = append(st.Problems, Found{p, hist})
					}
				}
				k := after.Key()
				if !seen[k] {
					seen[k] = true
					st.States++
					next = append(next, node{after, hist})
					if len(hist) > st.MaxDepth {
						st.MaxDepth = len(hist)
					}
					if len(st.Sample) < 3 && len(hist) == w.Depth {
						st.Sample = append(st.Sample, strings.Join(hist, " ; "))
					}
				}
			}
		}
		frontier = next
	}
	return st, nil
}

// RunIn materialises the tree in scratch, runs the CLI there and reads the tree back.
func RunIn(bin string, t Tree, scratch, dir string, env []string, args ...string) (Tree, *Run, error) {
	return RunInTimeout(bin, t, scratch, dir, env, 5*time.Minute, args...)
}

// RunInTimeout is RunIn with an explicit deadline for the process.
func RunInTimeout(bin string, t Tree, scratch, dir string, env []string, limit time.Duration, args ...string) (Tree, *Run, error) {
	if err := t.Write(scratch); err != nil {
		return nil, nil, err
	}
	r := ExecTimeout(bin, scratch, dir, env, limit, args...)
	after, err := Read(scratch)
	if err != nil {
		return nil, nil, err
	}
	// paths in diagnostics move with the module: make them comparable
	r.Stderr = strings.ReplaceAll(r.Stderr, scratch, "@root")
	r.Stdout = strings.ReplaceAll(r.Stdout, scratch, "@root")
	return after, &r, nil
}
