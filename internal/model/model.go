// Package model is the independent reference model of goverter's documented conversion
// rules (DESIGN.md Appendix A). It imports neither goverter nor go/types: it works on
// space.Ty and produces rt.Plan trees plus a three-valued verdict.
package model

import (
	"fmt"
	"sort"
	"strings"

	"verif/internal/space"
	"verifrt"
)

type Verdict int

const (
	OK Verdict = iota
	Unspec
	Reject
)

func (v Verdict) String() string { return [...]string{"must-succeed", "unspecified", "must-fail"}[v] }

// Settings are the inheritable settings in effect at some level.
type Settings struct {
	SkipCopySameType bool
	UseZeroPtr       bool // useZeroValueOnPointerInconsistency
	UseUnderlying    bool
	EnumOff          bool
	EnumUnknown      string
	IgnoreUnexported bool
	IgnoreMissing    bool
	MatchIgnoreCase  bool
	WrapErrors       bool
	WrapErrorsUsing  string
	ZeroBasic        bool
	ZeroStruct       bool
	ZeroNillable     bool
	DefaultUpdate    bool
}

// Custom is a user function usable as extend / map|FUNC / default.
type Custom struct {
	Name    string // registered name (also Go identifier)
	Pkg     string
	Src     *space.Ty // nil: no source parameter
	Dst     *space.Ty
	Err     bool
	Ctx     []*space.Ty // context parameter types in order
	Conv    bool        // first parameter is the converter interface
	ArgsFmt []string    // parameter roles in declaration order: "conv","src","ctx:<i>"
}

type FieldCfg struct {
	Source string
	Fn     *Custom
	Ignore bool
}

// Method is a declared converter method.
type Method struct {
	Name    string
	Src     *space.Ty
	Dst     *space.Ty
	Set     Settings
	Fields  map[string]*FieldCfg
	AutoMap []string
	EnumMap map[string]string
	// EnumTransformRegex: list of (pattern, replacement)
	EnumTransforms [][2]string
	CtxTypes       []*space.Ty // context argument types of this method, in order
	HasErr         bool
	Update         bool
	Default        *Custom
	NFieldSettings int // number of field-related setting lines written on the method
}

// Converter is one goverter:converter declaration.
type Converter struct {
	Set     Settings // converter-level (used by generated sub-methods)
	Extends []*Custom
	Methods []*Method
	OutPkg  string // package path key of the output package
	LitPkg  string // package in which unnamed struct literals of the signatures are written
	// EnumExclude: names of decl keys ("pkg.Name") excluded from enum detection
	EnumExclude map[string]bool
}

type env struct {
	set       Settings
	method    *Method // nil inside generated sub-methods
	fieldsKey string  // Key of the struct type field settings apply to ("" = none)
	srcKey    string
	dstKey    string
	seen      map[string]bool
	explicit  bool
	ctx       []*space.Ty // available contexts
	chain     []*env      // enclosing methods (origin path), innermost first
	hasErr    bool
	updNext   bool // the next struct rule application is an "update" assignment (default constructors)
}

type Result struct {
	Verdict Verdict
	Reasons []string
	Codes   []string // reject reason classes (format strings with verbs stripped)
	Pkgs    map[string]bool // packages owning the named types rendered by the conversions
	NeedFmt bool            // an enum @error/@panic action is part of the plan
	Fallible bool           // a fallible site (custom function, enum @error, struct method with error) is part of the plan
	WrapPkgs map[string]bool // wrapErrorsUsing packages in effect at fallible sites (import required)
	WrapFmt  bool            // wrapErrors in effect at a fallible site (fmt import possible)
	// WrapOptional: wrapErrorsUsing packages of the methods an error passes through on its way up (they wrap it with a
	// path element only when a field, index or key lies in between: import possible, not required)
	WrapOptional map[string]bool
	Plan    *rt.PlanSet
	// Fallible: the top method needs an error result
	States      map[string]bool
	Transitions int
}

type modeler struct {
	topCtx  []*space.Ty
	conv    *Converter
	defs    map[string]*rt.Plan
	res     *Result
	pending map[string]bool
}

func (m *modeler) reject(format string, a ...any) *rt.Plan {
	if m.res.Verdict < Reject {
		m.res.Verdict = Reject
	}
	m.res.Reasons = append(m.res.Reasons, "reject: "+fmt.Sprintf(format, a...))
	m.res.Codes = append(m.res.Codes, codeOf(format))
	return nil
}

func (m *modeler) unspec(format string, a ...any) {
	if m.res.Verdict < Unspec {
		m.res.Verdict = Unspec
	}
	m.res.Reasons = append(m.res.Reasons, "unspecified: "+fmt.Sprintf(format, a...))
}

// Judge computes verdict and plan of one declared method of the converter.
func Judge(conv *Converter, meth *Method) *Result {
	m := &modeler{conv: conv, defs: map[string]*rt.Plan{}, res: &Result{States: map[string]bool{}, Pkgs: map[string]bool{}, WrapPkgs: map[string]bool{}, WrapOptional: map[string]bool{}}, pending: map[string]bool{}}
	m.topCtx = meth.CtxTypes
	// two declared methods with one signature whose context sets contain each other are ambiguous
	for i, a := range conv.Methods {
		for _, b := range conv.Methods[i+1:] {
			if a.Update || b.Update || a.Src == nil || b.Src == nil {
				continue
			}
			if a.Src.Key() == b.Src.Key() && a.Dst.Key() == b.Dst.Key() && (ctxSubset(a.CtxTypes, b.CtxTypes) || ctxSubset(b.CtxTypes, a.CtxTypes)) {
				m.reject("declared methods %s and %s have overlapping signatures", a.Name, b.Name)
			}
		}
	}
	root := m.method(meth)
	m.res.Plan = &rt.PlanSet{Root: root, Defs: m.defs}
	return m.res
}

func fieldsKeyOf(t *space.Ty) string {
	if t.Under().K == space.Ptr && t.K != space.Named {
		if e := t.Elem; e.Under().K == space.Struct {
			return e.Key()
		}
	}
	return t.Key()
}

func (m *modeler) method(meth *Method) *rt.Plan {
	meth.Src.UsesPkgs("\x00", m.res.Pkgs)
	meth.Dst.UsesPkgs("\x00", m.res.Pkgs)
	e := &env{set: meth.Set, method: meth, fieldsKey: fieldsKeyOf(meth.Dst), srcKey: meth.Src.Key(), dstKey: meth.Dst.Key(),
		seen: map[string]bool{}, explicit: true, ctx: meth.CtxTypes, hasErr: meth.HasErr}
	if meth.NFieldSettings > 0 {
		d := meth.Dst
		ok := d.Under().K == space.Struct || (d.Under().K == space.Ptr && d.Under().Elem.Under().K == space.Struct)
		if !ok {
			return m.reject("field settings on non-struct target %s", d)
		}
	}
	if meth.Update {
		return m.updateMethod(e, meth)
	}
	if c, exists := m.findExtendCtx(e.ctx, meth.Src, meth.Dst); c != nil {
		return m.custom(e, c, meth.Src, meth.Dst)
	} else if exists {
		return m.reject("extend for %s → %s needs unavailable contexts", meth.Src, meth.Dst)
	}
	if meth.Default != nil {
		return m.defaultMethod(e, meth)
	}
	return m.rules(e, meth.Src, meth.Dst)
}

// updateMethod: goverter:update ARG. Target must be *struct, source struct or *struct.
func (m *modeler) updateMethod(e *env, meth *Method) *rt.Plan {
	t := meth.Dst
	if t.K == space.Named || t.Under().K != space.Ptr || t.Under().Elem.Under().K != space.Struct {
		if t.Under().K != space.Ptr || t.Under().Elem.Under().K != space.Struct {
			return m.reject("update target %s is not a pointer to struct", t)
		}
	}
	s := meth.Src
	if s.Under().K != space.Struct {
		if s.Under().K == space.Ptr && s.Under().Elem.Under().K == space.Struct {
			s = s.Under().Elem
		} else {
			return m.reject("update source %s is not a struct or pointer to struct", s)
		}
	}
	in := m.structRule(e, s, t.Under().Elem)
	if in == nil {
		return nil
	}
	return &rt.Plan{Op: "update", In: in}
}

// defaultMethod: goverter:default FUNC on a method (Appendix A.5).
func (m *modeler) defaultMethod(e *env, meth *Method) *rt.Plan {
	s, t, c := meth.Src, meth.Dst, meth.Default
	su, tu := s.Under(), t.Under()
	// the constructor result must fit the target (a value result may be addressed for a pointer target)
	callT := t
	toPtr := tu.K == space.Ptr && c.Dst.Under().K != space.Ptr
	if toPtr {
		callT = tu.Elem
	}
	cp := m.custom(e, c, s, callT)
	if cp == nil {
		return nil
	}
	p := &rt.Plan{Op: "default", K: cp}
	if toPtr {
		p.Fn = "addr"
	}
	// a custom function or declared method for the struct pair itself is used in the update position as well: its
	// result replaces the constructor's value (goverter looks existing conversions up before it assigns field-wise)
	elemOf := func(x *space.Ty) *space.Ty {
		if x.Under().K == space.Ptr {
			return x.Under().Elem
		}
		return x
	}
	es, et := elemOf(s), elemOf(t)
	hasCustom := false
	if es.Under().K == space.Struct && et.Under().K == space.Struct && (su.K == space.Ptr || tu.K == space.Ptr) {
		if _, exists := m.findExtendCtx(e.ctx, es, et); exists || m.findMethod(es, et) != nil {
			hasCustom = true
		}
	}
	if hasCustom {
		replace := ""
		switch {
		case su.K == space.Ptr && tu.K == space.Ptr && e.set.DefaultUpdate:
			replace = "ptr-replace"
		case su.K == space.Ptr && tu.K != space.Ptr && e.set.UseZeroPtr && e.set.DefaultUpdate:
			replace = "srcptr-replace"
		case su.K == space.Struct && tu.K == space.Ptr:
			replace = "val2ptr-replace"
		}
		if replace != "" {
			in := m.pos(e, es, et)
			if in == nil {
				return nil
			}
			p.Ref, p.In = replace, in
			return p
		}
	}
	switch {
	case su.K == space.Ptr && tu.K == space.Ptr && su.Elem.Under().K == space.Struct && tu.Elem.Under().K == space.Struct && e.set.DefaultUpdate:
		e.updNext = true
		in := m.structRule(e, su.Elem, tu.Elem)
		if in == nil {
			return nil
		}
		p.Ref, p.In = "ptr-update", in
	case su.K == space.Ptr && tu.K == space.Ptr:
		in := m.rules(e, s, t)
		if in == nil {
			return nil
		}
		p.Ref, p.In = "nil-default", in
	case su.K == space.Ptr && tu.K != space.Ptr:
		if !e.set.UseZeroPtr {
			return m.reject("*T to T without useZeroValueOnPointerInconsistency: %s → %s", s, t)
		}
		if e.set.DefaultUpdate && su.Elem.Under().K == space.Struct && tu.K == space.Struct {
			e.updNext = true
			in := m.structRule(e, su.Elem, t)
			if in == nil {
				return nil
			}
			p.Ref, p.In = "srcptr-update", in
		} else {
			in := m.rules(e, s, t)
			if in == nil {
				return nil
			}
			p.Ref, p.In = "nil-default", in
		}
	case su.K == space.Struct && tu.K == space.Ptr && tu.Elem.Under().K == space.Struct:
		e.updNext = true
		in := m.structRule(e, s, tu.Elem)
		if in == nil {
			return nil
		}
		p.Ref, p.In = "val2ptr", in
	case su.K == space.Struct && tu.K == space.Struct:
		in := m.structRule(e, s, t)
		if in == nil {
			return nil
		}
		p.Ref, p.In = "struct", in
	default:
		m.unspec("default FUNC on a method that is not a struct / struct pointer conversion")
		return m.rules(e, s, t)
	}
	return p
}

// extendHits returns the registered extends for the signature after goverter's override rule: a later extend replaces an
// earlier one of the same signature when the context set of one contains the other's.
func (m *modeler) extendHits(s, t *space.Ty) []*Custom {
	var hits []*Custom
	for _, c := range m.conv.Extends {
		if c.Src == nil || c.Src.Key() != s.Key() || c.Dst.Key() != t.Key() {
			continue
		}
		replaced := false
		for i, h := range hits {
			if ctxSubset(h.Ctx, c.Ctx) || ctxSubset(c.Ctx, h.Ctx) {
				hits[i] = c
				replaced = true
				break
			}
		}
		if !replaced {
			hits = append(hits, c)
		}
	}
	return hits
}

func ctxSubset(a, b []*space.Ty) bool {
	for _, x := range a {
		found := false
		for _, y := range b {
			if x.Key() == y.Key() {
				found = true
			}
		}
		if !found {
			return false
		}
	}
	return true
}

// findExtend returns the extend used for (s,t) given the available contexts; exists reports whether any extend has the signature.
func (m *modeler) findExtendCtx(avail []*space.Ty, s, t *space.Ty) (c *Custom, exists bool) {
	hits := m.extendHits(s, t)
	for _, h := range hits {
		if ctxSubset(h.Ctx, avail) {
			return h, true
		}
	}
	return nil, len(hits) > 0
}

func (m *modeler) findExtend(s, t *space.Ty) *Custom {
	hits := m.extendHits(s, t)
	if len(hits) == 0 {
		return nil
	}
	return hits[0]
}

func (m *modeler) findMethod(s, t *space.Ty) *Method {
	for _, x := range m.conv.Methods {
		if !x.Update && x.Src.Key() == s.Key() && x.Dst.Key() == t.Key() {
			return x
		}
	}
	return nil
}

func (m *modeler) custom(e *env, c *Custom, s, t *space.Ty) *rt.Plan {
	// contexts required by c must be available
	for _, need := range c.Ctx {
		found := false
		for _, have := range e.ctx {
			if have.Key() == need.Key() {
				found = true
			}
		}
		if !found {
			return m.reject("custom %s needs unavailable context %s", c.Name, need)
		}
	}
	if c.Src != nil && s != nil && !assignable(s, c.Src) {
		return m.reject("custom %s source type %s does not accept %s", c.Name, c.Src, s)
	}
	if t != nil && !assignable(c.Dst, t) {
		return m.reject("custom %s result %s not assignable to %s", c.Name, c.Dst, t)
	}
	if c.Err && !m.needErr(e) {
		return m.reject("custom %s returns error but method has no error result", c.Name)
	}
	p := &rt.Plan{Op: "custom", Fn: c.Name, Fallible: c.Err}
	if c.Pkg != "" {
		m.res.Pkgs[c.Pkg] = true
	} else {
		m.res.Pkgs[m.conv.LitPkg] = true
	}
	if c.Err {
		m.noteFallible(e)
	}
	for _, role := range c.ArgsFmt {
		switch {
		case role == "conv":
			p.Args = append(p.Args, -2)
		case role == "src":
			p.Args = append(p.Args, -1)
		case strings.HasPrefix(role, "ctx:"):
			var ci int
			fmt.Sscanf(role, "ctx:%d", &ci)
			idx := -3
			for i, tc := range m.topCtx {
				if tc.Key() == c.Ctx[ci].Key() {
					idx = i
				}
			}
			p.Args = append(p.Args, idx)
		}
	}
	return p
}

// noteFallible records a fallible site and which error wrapping is in effect for the method containing it.
func (m *modeler) noteFallible(e *env) {
	m.res.Fallible = true
	if e.set.WrapErrorsUsing != "" {
		m.res.WrapPkgs[e.set.WrapErrorsUsing] = true
	} else if e.set.WrapErrors {
		m.res.WrapFmt = true
	}
	m.noteChainWrap(e)
}

// noteChainWrap: every method on the way up may wrap the error with its own wrapping mode.
func (m *modeler) noteChainWrap(e *env) {
	for _, x := range append([]*env{e}, e.chain...) {
		if x.set.WrapErrorsUsing != "" {
			m.res.WrapOptional[x.set.WrapErrorsUsing] = true
		} else if x.set.WrapErrors {
			m.res.WrapFmt = true
		}
	}
}

// needErr checks that every explicit method on the origin chain returns an error.
func (m *modeler) needErr(e *env) bool {
	if e.explicit && !e.hasErr {
		return false
	}
	for _, p := range e.chain {
		if p.explicit && !p.hasErr {
			return false
		}
	}
	return true
}

func isNamedNonBasic(t *space.Ty) bool {
	if t.K != space.Named {
		return false
	}
	_, b := t.BasicKind()
	return !b
}

// IsEnum: named type, underlying int/float/string kind, at least one constant, detection enabled.
func (m *modeler) isEnum(set Settings, t *space.Ty) bool {
	if set.EnumOff || t.K != space.Named || len(t.D.Consts) == 0 {
		return false
	}
	if m.conv.EnumExclude[t.D.Pkg+"."+t.D.Name] {
		return false
	}
	k, ok := t.BasicKind()
	if !ok {
		return false
	}
	switch {
	case k == "string", strings.HasPrefix(k, "int"), strings.HasPrefix(k, "uint"), strings.HasPrefix(k, "float"):
		return true
	}
	return false
}

// pos is one conversion position (goverter's Build/Assign entry).
func (m *modeler) pos(e *env, s, t *space.Ty) *rt.Plan {
	m.res.Transitions++
	m.res.States[s.Key()+"→"+t.Key()] = true
	s.UsesPkgs("\x00", m.res.Pkgs)
	t.UsesPkgs("\x00", m.res.Pkgs)
	if c, exists := m.findExtendCtx(e.ctx, s, t); c != nil {
		return m.custom(e, c, s, t)
	} else if exists {
		return m.reject("extend for %s → %s needs unavailable contexts", s, t)
	}
	if dm := m.findMethod(s, t); dm != nil {
		// declared method is used with its own settings; its contexts must be available here
		if !ctxSubset(dm.CtxTypes, e.ctx) {
			return m.reject("declared method %s needs unavailable contexts", dm.Name)
		}
		if dm.HasErr && !m.needErr(e) {
			return m.reject("declared method %s returns error but caller has no error result", dm.Name)
		}
		if dm.HasErr {
			m.noteChainWrap(e)
		}
		key := "m:" + dm.Name
		m.ensure(key, func() *rt.Plan { return m.method(dm) })
		return &rt.Plan{Op: "ref", Ref: key}
	}
	key := "g:" + s.Key() + "→" + t.Key()
	if _, ok := m.defs[key]; ok || m.pending[key] {
		return &rt.Plan{Op: "ref", Ref: key}
	}
	if m.shouldSub(e, s, t) {
		sub := &env{set: m.conv.Set, srcKey: s.Key(), dstKey: t.Key(), seen: map[string]bool{}, ctx: e.ctx,
			chain: append([]*env{e}, e.chain...), fieldsKey: fieldsKeyOf(t)}
		m.ensure(key, func() *rt.Plan { return m.rules(sub, s, t) })
		return &rt.Plan{Op: "ref", Ref: key}
	}
	return m.rules(e, s, t)
}

func (m *modeler) ensure(key string, f func() *rt.Plan) {
	if _, ok := m.defs[key]; ok || m.pending[key] {
		return
	}
	m.pending[key] = true
	p := f()
	delete(m.pending, key)
	m.defs[key] = p
}

func (m *modeler) shouldSub(e *env, s, t *space.Ty) bool {
	cur := false
	if s.Under().K == space.Struct && t.Under().K == space.Struct {
		cur = e.srcKey == "*"+s.Key() || e.dstKey == "*"+t.Key()
	}
	create := false
	if s.K == space.Named && e.seen[s.Key()] {
		create = true
	} else if !cur {
		switch {
		case isNamedNonBasic(s), isNamedNonBasic(t):
			create = true
		case s.K == space.Ptr && isNamedNonBasic(s.Elem):
			create = true
		case m.isEnum(e.set, s) && m.isEnum(e.set, t):
			create = true
		}
		if e.set.SkipCopySameType && s.Key() == t.Key() {
			create = false
		}
	}
	if s.K == space.Named {
		e.seen[s.Key()] = true
	}
	return create
}

func (m *modeler) hasSig(s, t *space.Ty) bool {
	return m.findExtend(s, t) != nil || m.findMethod(s, t) != nil || m.defs["g:"+s.Key()+"→"+t.Key()] != nil
}

// rules applies the ordered rule list without looking up custom functions for (s,t) itself.
func (m *modeler) rules(e *env, s, t *space.Ty) *rt.Plan {
	su, tu := s.Under(), t.Under()
	// overlapping struct settings: a sibling pointer-variant method carrying field settings would be bypassed
	if su.K == space.Struct && tu.K == space.Struct {
		for _, dm := range m.conv.Methods {
			if dm.Update || dm.NFieldSettings == 0 {
				continue
			}
			sk, tk := dm.Src.Key(), dm.Dst.Key()
			if sk == e.srcKey && tk == e.dstKey {
				continue
			}
			if (sk == "*"+s.Key() && tk == t.Key()) || (sk == "*"+s.Key() && tk == "*"+t.Key()) || (sk == s.Key() && tk == "*"+t.Key()) {
				return m.reject("overlapping struct settings of %s would be bypassed", dm.Name)
			}
		}
	}
	// useUnderlyingTypeMethods
	if e.set.UseUnderlying {
		srcU, dstU := false, false
		switch {
		case s.K == space.Named && m.hasSig(s.Under(), t):
			srcU = true
		case s.K == space.Named && t.K == space.Named && m.hasSig(s.Under(), t.Under()):
			srcU, dstU = true, true
		case t.K == space.Named && m.hasSig(s, t.Under()):
			dstU = true
		}
		if srcU || dstU {
			if !e.set.EnumOff && m.isEnum(e.set, s) && m.isEnum(e.set, t) {
				return m.reject("enum pair also matches underlying extend")
			}
			is, it := s, t
			if srcU {
				is = s.Under()
			}
			if dstU {
				it = t.Under()
			}
			in := m.pos(e, is, it)
			if in == nil {
				return nil
			}
			return &rt.Plan{Op: "cast", In: in, CastSrc: is.Key()}
		}
	}
	if e.set.SkipCopySameType && s.Key() == t.Key() {
		return &rt.Plan{Op: "share"}
	}
	if m.isEnum(e.set, s) && m.isEnum(e.set, t) {
		return m.enum(e, s, t)
	}
	sb, sIsB := s.BasicKind()
	tb, tIsB := t.BasicKind()
	switch {
	case sIsB && tu.K == space.Ptr && isBasic(tu.Elem):
		in := m.pos(e, s, tu.Elem)
		if in == nil {
			return nil
		}
		return &rt.Plan{Op: "val2ptr", In: in}
	case su.K == space.Ptr && tu.K == space.Ptr:
		in := m.pos(e, su.Elem, tu.Elem)
		if in == nil {
			return nil
		}
		return &rt.Plan{Op: "ptr", In: in}
	case su.K == space.Ptr && tu.K != space.Ptr:
		if !e.set.UseZeroPtr {
			return m.reject("*T to T without useZeroValueOnPointerInconsistency: %s → %s", s, t)
		}
		in := m.pos(e, su.Elem, t)
		if in == nil {
			return nil
		}
		return &rt.Plan{Op: "ptr2val", In: in}
	case su.K != space.Ptr && tu.K == space.Ptr:
		in := m.pos(e, s, tu.Elem)
		if in == nil {
			return nil
		}
		return &rt.Plan{Op: "val2ptr", In: in}
	case sIsB && tIsB:
		if sb != tb {
			return m.reject("basic kinds differ: %s vs %s", sb, tb)
		}
		if sb == "unsafe.Pointer" {
			m.unspec("unsafe.Pointer copy")
		}
		return &rt.Plan{Op: "copy"}
	case su.K == space.Struct && tu.K == space.Struct:
		return m.structRule(e, s, t)
	case (su.K == space.Slice || su.K == space.Array) && tu.K == space.Slice:
		in := m.pos(e, su.Elem, tu.Elem)
		if su.K == space.Array {
			m.unspec("array source to slice target")
			if in == nil {
				return nil
			}
			return &rt.Plan{Op: "arr2slice", In: in}
		}
		if in == nil {
			return nil
		}
		return &rt.Plan{Op: "slice", In: in}
	case tu.K == space.Array && su.K == space.Array:
		m.unspec("array to array")
		return nil
	case su.K == space.Map && tu.K == space.Map:
		k := m.pos(e, su.MKey, tu.MKey)
		v := m.pos(e, su.Elem, tu.Elem)
		if k == nil || v == nil {
			return nil
		}
		return &rt.Plan{Op: "map", K: k, V: v}
	}
	return m.reject("no rule for %s → %s", s, t)
}

func isBasic(t *space.Ty) bool { _, ok := t.BasicKind(); return ok }

func exported(name string) bool { return name != "" && name[0] >= 'A' && name[0] <= 'Z' }

func (m *modeler) declPkg(t *space.Ty) string {
	if t.K == space.Named {
		return t.D.Pkg
	}
	return m.conv.LitPkg
}

type srcCand struct {
	path   []string
	t      *space.Ty
	method *space.Method
	owner  *space.Ty
}

// candidates finds fields/methods named name on struct type st (exact first, then case-insensitive matches).
func candidates(st *space.Ty, prefix []string, name string, ignoreCase bool) (exact *srcCand, loose []*srcCand) {
	u := st.Under()
	handle := func(n string, t *space.Ty, meth *space.Method) *srcCand {
		ex := n == name
		if ex || (ignoreCase && strings.EqualFold(n, name)) {
			c := &srcCand{path: append(append([]string{}, prefix...), n), t: t, method: meth, owner: st}
			if ex {
				return c
			}
			loose = append(loose, c)
		}
		return nil
	}
	for _, f := range u.Fields {
		if c := handle(f.Name, f.T, nil); c != nil {
			return c, loose
		}
	}
	if st.K == space.Named {
		for i := range st.D.Methods {
			mm := &st.D.Methods[i]
			if c := handle(mm.Name, mm.Result, mm); c != nil {
				return c, loose
			}
		}
	}
	return nil, loose
}

func (m *modeler) structRule(e *env, s, t *space.Ty) *rt.Plan {
	upd := e.updNext
	e.updNext = false
	tu := t.Under()
	applies := e.method != nil && e.fieldsKey == t.Key()
	var autoMaps []*srcCand // path + struct type
	if e.method != nil {
		for _, am := range e.method.AutoMap {
			cur := s
			ok := true
			parts := strings.Split(am, ".")
			for _, part := range parts {
				if cur.Under().K != space.Struct {
					ok = false
					break
				}
				ex, _ := candidates(cur, nil, part, false)
				if ex == nil || ex.method != nil {
					ok = false
					break
				}
				cur = ex.t
				switch {
				case cur.Under().K == space.Ptr && cur.Under().Elem.Under().K == space.Struct:
					// goverter continues with the *unnamed* struct type of the pointee
					cur = cur.Under().Elem.Under()
				case cur.Under().K == space.Struct:
				default:
					ok = false
				}
				if !ok {
					break
				}
			}
			if !ok {
				return m.reject("autoMap path %q unusable on %s", am, s)
			}
			autoMaps = append(autoMaps, &srcCand{path: parts, t: cur})
		}
	}
	defined := map[string]bool{}
	if applies {
		for n := range e.method.Fields {
			defined[n] = true
		}
	}
	plan := &rt.Plan{Op: "struct"}
	failed := false
	for _, tf := range tu.Fields {
		delete(defined, tf.Name)
		var fc *FieldCfg
		if applies {
			fc = e.method.Fields[tf.Name]
		}
		if fc == nil {
			fc = &FieldCfg{}
		}
		if fc.Ignore {
			plan.Fields = append(plan.Fields, rt.FieldPlan{Target: tf.Name, Ignore: true})
			continue
		}
		if !exported(tf.Name) && e.set.IgnoreUnexported {
			plan.Fields = append(plan.Fields, rt.FieldPlan{Target: tf.Name, Ignore: true})
			continue
		}
		if !exported(tf.Name) && m.declPkg(t) != m.conv.OutPkg {
			m.reject("unexported target field %s.%s not accessible from %s", t, tf.Name, m.conv.OutPkg)
			failed = true
			continue
		}
		fp := rt.FieldPlan{Target: tf.Name}
		var srcT *space.Ty
		needSource := fc.Fn == nil || fc.Fn.Src != nil
		if needSource {
			st, skip, ok := m.mapField(e, &fp, fc, tf.Name, s, autoMaps)
			if skip && fc.Fn == nil {
				plan.Fields = append(plan.Fields, rt.FieldPlan{Target: tf.Name, Ignore: true})
				continue
			}
			if !ok {
				failed = true
				continue
			}
			srcT = st
		}
		if fc.Fn == nil {
			fp.Plan = m.pos(e, srcT, tf.T)
			if fp.Plan == nil {
				failed = true
				continue
			}
			fp.ZeroGuard = m.zeroGuard(e, srcT, tf.T, false, upd)
		} else {
			fp.NoSource = fc.Fn.Src == nil
			if fp.Whole && fc.Fn.Src != nil && e.srcKey == "*"+s.Key() && fc.Fn.Src.Key() == "*"+s.Key() {
				// map . F | FUNC inside a pointer method: FUNC may take the original pointer
				fp.AddrOf = true
				srcT = space.P(s)
			}
			fp.Plan = m.custom(e, fc.Fn, srcT, tf.T)
			if fp.Plan == nil {
				failed = true
				continue
			}
			if fc.Fn.Src != nil {
				fp.ZeroGuard = m.zeroGuard(e, srcT, tf.T, true, upd)
			}
		}
		plan.Fields = append(plan.Fields, fp)
	}
	if len(defined) > 0 {
		var names []string
		for n := range defined {
			names = append(names, n)
		}
		sort.Strings(names)
		m.reject("field settings reference non-existing target field(s) %v", names)
		failed = true
	}
	if failed {
		return nil
	}
	return plan
}

// zeroGuard: update methods / default:update assignments skip zero-valued sources of selected categories.
func (m *modeler) zeroGuard(e *env, s, t *space.Ty, call, upd bool) bool {
	if e.method == nil || !(e.method.Update || upd) {
		return false
	}
	su := s.Under()
	switch {
	case su.K == space.Struct && e.set.ZeroStruct:
		return true
	case isBasic(s) && e.set.ZeroBasic:
		return true
	case e.set.ZeroNillable:
		switch su.K {
		case space.Chan, space.Map, space.Func, space.Iface, space.Error:
			return true
		}
		if call || (e.set.SkipCopySameType && s.Key() == t.Key()) {
			return su.K == space.Slice || su.K == space.Ptr
		}
	}
	return false
}

// mapField selects the source expression for a target field. Returns its type.
func (m *modeler) mapField(e *env, fp *rt.FieldPlan, fc *FieldCfg, target string, s *space.Ty, autoMaps []*srcCand) (t *space.Ty, skip, ok bool) {
	if fc.Source == "." {
		fp.Whole = true
		return s, false, true
	}
	var path []string
	if fc.Source == "" {
		ex, loose := candidates(s, nil, target, e.set.MatchIgnoreCase)
		var exacts []*srcCand
		if ex != nil {
			exacts = append(exacts, ex)
		}
		for _, am := range autoMaps {
			ax, al := candidates(am.t, am.path, target, e.set.MatchIgnoreCase)
			if ax != nil {
				exacts = append(exacts, ax)
			}
			loose = append(loose, al...)
		}
		matches := exacts
		if len(matches) == 0 {
			matches = loose
		}
		switch len(matches) {
		case 1:
			path = matches[0].path
		case 0:
			if e.set.IgnoreMissing {
				return nil, true, false
			}
			m.reject("no source for target field %s on %s", target, s)
			return nil, false, false
		default:
			m.reject("ambiguous source for target field %s on %s", target, s)
			return nil, false, false
		}
	} else {
		path = strings.Split(fc.Source, ".")
	}
	cur := s
	lifted := false
	var meth *space.Method
	for i, seg := range path {
		if cur.Under().K == space.Ptr {
			lifted = true
			cur = cur.Under().Elem
		}
		if meth != nil || cur.Under().K != space.Struct {
			m.reject("cannot access %q of path %v on %s", seg, path, cur)
			return nil, false, false
		}
		ex, _ := candidates(cur, nil, seg, false)
		if ex == nil {
			m.reject("path segment %q of %v not found on %s", seg, path, cur)
			return nil, false, false
		}
		if ex.method != nil {
			if i != len(path)-1 {
				m.reject("method %q in the middle of path %v", seg, path)
				return nil, false, false
			}
			meth = ex.method
		} else if ex.t.Under().K == space.Func && ex.t.K != space.Named && cur.K == space.Named {
			// func-typed field of a named struct is treated like a method by the implementation
			m.unspec("func-typed field %s used as source", seg)
		}
		if !exported(ex.path[len(ex.path)-1]) && m.declPkg(cur) != m.conv.OutPkg {
			m.reject("unexported source member %s.%s not accessible from %s", cur, seg, m.conv.OutPkg)
			return nil, false, false
		}
		cur = ex.t
	}
	fp.Path = path
	if meth != nil {
		fp.Method = true
		fp.MErr = meth.Err
		if meth.Err {
			m.noteFallible(e)
		}
		if meth.Err && !m.needErr(e) {
			m.reject("struct method source %s returns error but method has no error result", meth.Name)
			return nil, false, false
		}
	}
	if lifted && cur.Under().K != space.Ptr {
		fp.PtrLift = true
		cur = space.P(cur)
	} else if lifted {
		fp.PtrLift = true
	}
	return cur, false, true
}

func (m *modeler) enum(e *env, s, t *space.Ty) *rt.Plan {
	tgt := map[string]string{}
	for _, c := range t.D.Consts {
		tgt[c.Name] = c.Lit
	}
	applies := e.method != nil && e.fieldsKey == t.Key()
	emap := map[string]string{}
	var transforms [][2]string
	if applies {
		for k, v := range e.method.EnumMap {
			emap[k] = v
		}
	}
	if e.method != nil {
		transforms = e.method.EnumTransforms
	}
	tmap, terr := runTransforms(transforms, s, t)
	if terr != "" {
		return m.reject("enum transform: %s", terr)
	}
	names := make([]string, 0, len(s.D.Consts))
	src := map[string]string{}
	for _, c := range s.D.Consts {
		names = append(names, c.Name)
		src[c.Name] = c.Lit
	}
	sort.Strings(names)
	ep := &rt.EnumPlan{Cases: map[string]string{}}
	type prev struct{ name, action string }
	seen := map[string]prev{}
	failed := false
	for _, n := range names {
		delete(emap, n)
		target, ok := "", false
		if applies {
			target, ok = e.method.EnumMap[n]
		}
		if !ok {
			target, ok = tmap[n]
		}
		if !ok {
			target = n
		}
		var action string
		if strings.HasPrefix(target, "@") {
			switch target {
			case "@ignore", "@panic":
			case "@error":
				if !m.needErr(e) {
					m.reject("enum @error without error result")
					failed = true
				}
			default:
				m.reject("invalid enum action %s", target)
				failed = true
			}
			action = target
		} else {
			lit, ok := tgt[target]
			if !ok {
				m.reject("enum member %s of %s has no target %s on %s", n, s, target, t)
				failed = true
				continue
			}
			action = "=" + NormLit(lit)
		}
		key := NormLit(src[n])
		if p, dup := seen[key]; dup {
			if p.action != action {
				m.reject("enum members %s and %s have equal value but different targets", p.name, n)
				failed = true
			}
			continue
		}
		seen[key] = prev{n, action}
		ep.Cases[key] = action
	}
	unk := e.set.EnumUnknown
	switch {
	case unk == "":
		m.reject("enum:unknown missing for %s → %s", s, t)
		failed = true
	case strings.HasPrefix(unk, "@"):
		switch unk {
		case "@ignore", "@panic":
		case "@error":
			if !m.needErr(e) {
				m.reject("enum:unknown @error without error result")
				failed = true
			}
		default:
			m.reject("invalid enum:unknown action %s", unk)
			failed = true
		}
		ep.Unknown = unk
	default:
		lit, ok := tgt[unk]
		if !ok {
			m.reject("enum:unknown key %s does not exist on %s", unk, t)
			failed = true
		}
		ep.Unknown = "=" + NormLit(lit)
	}
	if len(emap) > 0 {
		m.reject("enum:map keys %v do not exist on %s", keys(emap), s)
		failed = true
	}
	if failed {
		return nil
	}
	for _, a := range ep.Cases {
		if a == "@error" || a == "@panic" {
			m.res.NeedFmt = true
		}
		if a == "@error" {
			m.noteFallible(e)
		}
	}
	if ep.Unknown == "@error" {
		m.noteFallible(e)
	}
	if ep.Unknown == "@error" || ep.Unknown == "@panic" {
		m.res.NeedFmt = true
	}
	return &rt.Plan{Op: "enum", Enum: ep}
}

func keys(m map[string]string) []string {
	var k []string
	for x := range m {
		k = append(k, x)
	}
	sort.Strings(k)
	return k
}

// NormLit normalises a Go literal to the %v print of its value.
func NormLit(lit string) string {
	if len(lit) >= 2 && lit[0] == '"' {
		return lit[1 : len(lit)-1]
	}
	return lit
}

func codeOf(format string) string {
	f := strings.NewReplacer("%s", "_", "%v", "_", "%q", "_", "%d", "_").Replace(format)
	return strings.Join(strings.Fields(f), "-")
}

// assignable approximates Go assignability for the types used in scenarios: identical types, identical underlying types
// with at least one side unnamed, or an empty-interface / error target implemented by construction.
func assignable(from, to *space.Ty) bool {
	if from.Key() == to.Key() {
		return true
	}
	if to.K == space.Iface && to.Name == "" {
		return true
	}
	if (from.K != space.Named || to.K != space.Named) && from.K != space.Basic && to.K != space.Basic {
		return underKey(from) == underKey(to)
	}
	return false
}

func underKey(t *space.Ty) string {
	if t.K == space.Named {
		return t.Under().Key()
	}
	return t.Key()
}
