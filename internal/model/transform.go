package model

import (
	"regexp"

	"verif/internal/space"
)

// runTransforms applies `enum:transform regex PATTERN REPLACEMENT` entries in order (later entries override earlier ones
// per key). A transformer that maps nothing is an error, as documented ("did not return any mapped values").
func runTransforms(trs [][2]string, s, t *space.Ty) (map[string]string, string) {
	out := map[string]string{}
	tgt := map[string]bool{}
	for _, c := range t.D.Consts {
		tgt[c.Name] = true
	}
	for _, tr := range trs {
		re, err := regexp.Compile(tr[0])
		if err != nil {
			return nil, "invalid pattern " + tr[0]
		}
		n := 0
		for _, c := range s.D.Consts {
			k := re.ReplaceAllString(c.Name, tr[1])
			if tgt[k] {
				out[c.Name] = k
				n++
			}
		}
		if n == 0 {
			return nil, "transformer mapped nothing"
		}
	}
	return out, ""
}
