// Package pool runs shards of a check in worker subprocesses (so that a stack overflow, runaway
// allocation or hang inside goverter kills a worker, not the check) and streams results back.
package pool

import (
	"bufio"
	"bytes"
	"encoding/json"
	"fmt"
	"os"
	"os/exec"
	"strings"
	"sync"
	"time"

	"verif/internal/ev"
)

type Msg struct {
	T      string         `json:"t"` // viol | counts | sample | note
	V      *ev.Violation  `json:"v,omitempty"`
	Counts map[string]int `json:"c,omitempty"`
	Sample any            `json:"s,omitempty"`
	Note   string         `json:"n,omitempty"`
}

// Crash describes an abnormal worker end.
type Crash struct {
	Shard    int
	LastCase string
	Stderr   string
	Timeout  bool
}

// Run starts n workers `self worker <name> <i> <n> extra...` and calls handle for every message.
func Run(name string, n int, extra []string, perWorkerTimeout time.Duration, handle func(shard int, m Msg)) []Crash {
	self, _ := os.Executable()
	var wg sync.WaitGroup
	var mu sync.Mutex
	var crashes []Crash
	for i := 0; i < n; i++ {
		wg.Add(1)
		go func(i int) {
			defer wg.Done()
			args := append([]string{"worker", name, fmt.Sprint(i), fmt.Sprint(n)}, extra...)
			cmd := exec.Command(self, args...)
			cmd.Env = append(os.Environ(), "GOMAXPROCS=2")
			stdout, _ := cmd.StdoutPipe()
			var stderr tailBuf
			cmd.Stderr = &stderr
			if err := cmd.Start(); err != nil {
				mu.Lock()
				crashes = append(crashes, Crash{Shard: i, Stderr: err.Error()})
				mu.Unlock()
				return
			}
			timedOut := false
			timer := time.AfterFunc(perWorkerTimeout, func() { timedOut = true; _ = cmd.Process.Kill() })
			sc := bufio.NewScanner(stdout)
			sc.Buffer(make([]byte, 1<<20), 64<<20)
			for sc.Scan() {
				var m Msg
				if err := json.Unmarshal(sc.Bytes(), &m); err != nil {
					continue
				}
				mu.Lock()
				handle(i, m)
				mu.Unlock()
			}
			err := cmd.Wait()
			timer.Stop()
			if err != nil || timedOut {
				mu.Lock()
				crashes = append(crashes, Crash{Shard: i, LastCase: stderr.lastCase(), Stderr: stderr.tail(), Timeout: timedOut})
				mu.Unlock()
			}
		}(i)
	}
	wg.Wait()
	return crashes
}

type tailBuf struct {
	mu  sync.Mutex
	buf []byte
	lc  string
}

func (t *tailBuf) Write(p []byte) (int, error) {
	t.mu.Lock()
	defer t.mu.Unlock()
	t.buf = append(t.buf, p...)
	// remember last begin marker, keep only a tail of everything else
	for {
		i := bytes.IndexByte(t.buf, '\n')
		if i < 0 {
			break
		}
		line := string(t.buf[:i])
		if strings.HasPrefix(line, "\x01B ") {
			t.lc = line[3:]
			t.buf = t.buf[i+1:]
			continue
		}
		break
	}
	if len(t.buf) > 1<<16 {
		// drop begin markers inside and keep the tail
		t.buf = t.buf[len(t.buf)-(1<<15):]
	}
	return len(p), nil
}

func (t *tailBuf) lastCase() string {
	t.mu.Lock()
	defer t.mu.Unlock()
	// scan remaining buffer for later markers
	for _, l := range strings.Split(string(t.buf), "\n") {
		if strings.HasPrefix(l, "\x01B ") {
			t.lc = l[3:]
		}
	}
	return t.lc
}

func (t *tailBuf) tail() string {
	t.mu.Lock()
	defer t.mu.Unlock()
	var keep []string
	for _, l := range strings.Split(string(t.buf), "\n") {
		if !strings.HasPrefix(l, "\x01B ") {
			keep = append(keep, l)
		}
	}
	s := strings.Join(keep, "\n")
	if len(s) > 4000 {
		s = s[:2000] + "\n…\n" + s[len(s)-2000:]
	}
	return s
}

// W is the worker-side writer.
type W struct {
	out    *bufio.Writer
	counts map[string]int
	nSamp  int
}

func NewW() *W { return &W{out: bufio.NewWriterSize(os.Stdout, 1<<16), counts: map[string]int{}} }

// Begin marks the case that is about to run (unbuffered, survives a crash).
func (w *W) Begin(id string) { fmt.Fprintf(os.Stderr, "\x01B %s\n", id) }

func (w *W) send(m Msg) {
	b, _ := json.Marshal(m)
	w.out.Write(b)
	w.out.WriteByte('\n')
}

func (w *W) Viol(v ev.Violation) { w.send(Msg{T: "viol", V: &v}); w.out.Flush() }
func (w *W) Count(k string)      { w.counts[k]++ }
func (w *W) CountN(k string, n int) { w.counts[k] += n }
func (w *W) Sample(s any) {
	if w.nSamp < 3 {
		w.nSamp++
		w.send(Msg{T: "sample", Sample: s})
	}
}
func (w *W) Note(s string) { w.send(Msg{T: "note", Note: s}) }
func (w *W) Close() {
	w.send(Msg{T: "counts", Counts: w.counts})
	w.out.Flush()
}
