// Package sched is the build-time half of engine E4: it instruments goverter's *generated* code (our copy of it)
// so that the cooperative scheduler of verifrt/vs owns every statement boundary and sees every store.
package sched

import (
	"bytes"
	"fmt"
	"go/ast"
	"go/format"
	"go/parser"
	"go/printer"
	"go/token"
	"strconv"
)

// Instrument returns the instrumented source and the number of scheduling points and write hooks inserted.
func Instrument(filename string, src []byte) ([]byte, int, int, error) {
	fset := token.NewFileSet()
	f, err := parser.ParseFile(fset, filename, src, parser.ParseComments)
	if err != nil {
		return nil, 0, 0, err
	}
	globals := map[*ast.ValueSpec]bool{}
	globalNames := map[string]bool{}
	for _, d := range f.Decls {
		if gd, ok := d.(*ast.GenDecl); ok && gd.Tok == token.VAR {
			for _, sp := range gd.Specs {
				vsp := sp.(*ast.ValueSpec)
				globals[vsp] = true
				for _, n := range vsp.Names {
					globalNames[n.Name] = true
				}
			}
		}
	}
	points, writes := 0, 0
	text := func(n ast.Node) string {
		var b bytes.Buffer
		_ = printer.Fprint(&b, fset, n)
		return b.String()
	}
	mk := func(code string) ast.Stmt {
		e, err := parser.ParseExpr(code)
		if err != nil {
			panic(fmt.Sprintf("instrument: cannot parse %q: %v", code, err))
		}
		return &ast.ExprStmt{X: e}
	}
	hooks := func(lhs []ast.Expr) []ast.Stmt {
		var out []ast.Stmt
		for _, l := range lhs {
			for {
				if p, ok := l.(*ast.ParenExpr); ok {
					l = p.X
					continue
				}
				break
			}
			switch x := l.(type) {
			case *ast.Ident:
				if x.Name == "_" {
					continue
				}
				if x.Obj != nil {
					if vsp, ok := x.Obj.Decl.(*ast.ValueSpec); ok && globals[vsp] {
						out = append(out, mk(fmt.Sprintf("vs.WriteGlobal(%q)", x.Name)))
						writes++
					}
				} else if globalNames[x.Name] {
					out = append(out, mk(fmt.Sprintf("vs.WriteGlobal(%q)", x.Name)))
					writes++
				}
			case *ast.IndexExpr:
				out = append(out, mk(fmt.Sprintf("vs.WriteElem(%s, %s, %s)", text(x.X), text(x.Index), strconv.Quote(text(l)))))
				writes++
			default:
				out = append(out, mk(fmt.Sprintf("vs.WritePtr(&(%s), %s)", text(l), strconv.Quote(text(l)))))
				writes++
			}
		}
		return out
	}
	rewrite := func(list []ast.Stmt) []ast.Stmt {
		var out []ast.Stmt
		for _, st := range list {
			switch st.(type) {
			case *ast.CaseClause, *ast.CommClause:
				out = append(out, st) // the body of a switch: points go inside the clauses
				continue
			}
			points++
			out = append(out, mk(fmt.Sprintf("vs.Point(%d)", points)))
			switch s := st.(type) {
			case *ast.AssignStmt:
				if s.Tok != token.DEFINE {
					out = append(out, hooks(s.Lhs)...)
				}
			case *ast.IncDecStmt:
				out = append(out, hooks([]ast.Expr{s.X})...)
			}
			out = append(out, st)
		}
		return out
	}
	for _, d := range f.Decls {
		fd, ok := d.(*ast.FuncDecl)
		if !ok || fd.Body == nil {
			continue
		}
		ast.Inspect(fd.Body, func(n ast.Node) bool {
			switch b := n.(type) {
			case *ast.BlockStmt:
				b.List = rewrite(b.List)
			case *ast.CaseClause:
				b.Body = rewrite(b.Body)
			}
			return true
		})
	}
	// import verifrt/vs
	imp := &ast.GenDecl{Tok: token.IMPORT, Specs: []ast.Spec{&ast.ImportSpec{Name: ast.NewIdent("vs"), Path: &ast.BasicLit{Kind: token.STRING, Value: `"verifrt/vs"`}}}}
	f.Decls = append([]ast.Decl{imp}, f.Decls...)
	var buf bytes.Buffer
	if err := format.Node(&buf, fset, f); err != nil {
		// fall back to the plain printer (comments may have moved)
		buf.Reset()
		if err := printer.Fprint(&buf, fset, f); err != nil {
			return nil, 0, 0, err
		}
	}
	return buf.Bytes(), points, writes, nil
}
