package space

// Universe is the fixed set of named declarations used by the type-pair explorers.
type Universe struct {
	Decls map[string]*Decl // key "pkg.Name"
}

func (u *Universe) add(d *Decl) *Decl {
	u.Decls[d.Pkg+"."+d.Name] = d
	return d
}

func (u *Universe) Get(pkg, name string) *Decl {
	d := u.Decls[pkg+"."+name]
	if d == nil {
		panic("no decl " + pkg + "." + name)
	}
	return d
}

// StdUniverse declares the same set of named types in packages "in" and "out".
func StdUniverse() *Universe {
	u := &Universe{Decls: map[string]*Decl{}}
	for _, pkg := range []string{"in", "out"} {
		u.add(&Decl{Pkg: pkg, Name: "MyInt", Under: B("int")})
		u.add(&Decl{Pkg: pkg, Name: "MyStr", Under: B("string")})
		u.add(&Decl{Pkg: pkg, Name: "Color", Under: B("int"), Consts: []Const{{"Red", "1"}, {"Green", "2"}}})
		u.add(&Decl{Pkg: pkg, Name: "Mode", Under: B("string"), Consts: []Const{{"ModeA", `"a"`}, {"ModeB", `"b"`}}})
		u.add(&Decl{Pkg: pkg, Name: "P", Under: St(F("X", B("int")), F("Y", B("string")))})
		u.add(&Decl{Pkg: pkg, Name: "PU", Under: St(F("X", B("int")), F("y", B("string")))})
		u.add(&Decl{Pkg: pkg, Name: "Iface", Under: IfaceM("M()")})
		u.add(&Decl{Pkg: pkg, Name: "G", TParams: 1, Under: St(F("V", B("T0")))})
		u.add(&Decl{Pkg: pkg, Name: "NM", Under: M(B("string"), B("int"))})
		u.add(&Decl{Pkg: pkg, Name: "NS", Under: S(B("int"))})
		// unexported fields that hold references: invisible to generated code of another package, so nothing of them may be shared
		u.add(&Decl{Pkg: pkg, Name: "PR", Under: St(F("X", B("int")), F("m", M(B("string"), B("int"))), F("p", P(B("int"))), F("l", S(B("int"))))})
		u.add(&Decl{Pkg: pkg, Name: "NFn", Under: Fn("(a int, b ...string) error")})
		u.add(&Decl{Pkg: pkg, Name: "NCh", Under: Ch("<-", B("int"))})
	}
	// a type owned by a third package (neither the source's, the target's nor the converter's)
	u.add(&Decl{Pkg: "third", Name: "T3", Under: St(F("V", B("int")), F("W", B("string")))})
	u.add(&Decl{Pkg: "third", Name: "ID3", Under: B("int")})
	// key enum whose members have different values on both sides (a converted key prints differently from its source)
	u.add(&Decl{Pkg: "in", Name: "KE", Under: B("int"), Consts: []Const{{"KA", "1"}, {"KB", "2"}}})
	u.add(&Decl{Pkg: "out", Name: "KE", Under: B("int"), Consts: []Const{{"KA", "11"}, {"KB", "12"}}})
	return u
}

// Leaves returns the leaf alphabet. full=false gives the reduced alphabet used at depth 2.
func (u *Universe) Leaves(full bool) []*Ty {
	var l []*Ty
	if full {
		for _, b := range []string{"int", "int64", "int32", "string", "bool", "float64", "uint8", "byte", "uintptr", "unsafe.Pointer", "complex128"} {
			l = append(l, B(b))
		}
		for _, pkg := range []string{"in", "out"} {
			for _, n := range []string{"MyInt", "MyStr", "Color", "Mode", "P", "PU", "Iface", "NS", "NM"} {
				l = append(l, N(u.Get(pkg, n)))
			}
			l = append(l, N(u.Get(pkg, "G"), B("int")))
		}
		l = append(l, St(F("X", B("int"))), St(), Any(), Err(), Fn("()"), Ch("", B("int")))
		return l
	}
	for _, b := range []string{"int", "int64", "string"} {
		l = append(l, B(b))
	}
	l = append(l, N(u.Get("in", "MyInt")), N(u.Get("in", "P")), N(u.Get("out", "P")), N(u.Get("in", "Color")), N(u.Get("out", "Color")), Any())
	return l
}

// ExoticLeaves: unnamed types whose spelling is the point (goverter has to write them out in signatures, variables
// and make() calls): function types with parameters, results and variadic parameters, directional channels, a channel
// of receive-only channels, interfaces with methods and embedded interfaces, tagged and embedded struct fields, and the
// basic kinds missing from the main alphabet.
func (u *Universe) ExoticLeaves() []*Ty {
	var l []*Ty
	for _, b := range []string{"int8", "int16", "uint", "uint16", "uint32", "uint64", "float32", "complex64", "rune"} {
		l = append(l, B(b))
	}
	p := N(u.Get("in", "P"))
	l = append(l,
		Fn("(xs ...int) bool"), Fn("(a int, b ...string)"), Fn("(a int, b string) (int, error)"), Fn("(in.P) out.P"), Fn("(func(...int)) func(...string)"),
		Ch("->", B("int")), Ch("<-", B("int")), Ch("", Ch("<-", B("int"))), Ch("->", Ch("->", B("int"))), Ch("<-", p),
		IfaceM("Name(prefix string) string"), IfaceM("error; Code() int"), IfaceM("M(xs ...int)"),
		&Ty{K: Struct, Fields: []Field{{Name: "A", T: B("int"), Tag: `json:"a,omitempty"`}}},
		&Ty{K: Struct, Fields: []Field{{Name: "A", T: B("int"), Tag: "q`uote"}, {Name: "B", T: Fn("(...string)"), Tag: `json:"b"`}}},
		&Ty{K: Struct, Fields: []Field{{Name: "P", T: p, Embedded: true}, {Name: "Z", T: B("int")}}},
		N(u.Get("in", "PR")), N(u.Get("out", "PR")),
		// named function and channel types (same and different packages)
		N(u.Get("in", "NFn")), N(u.Get("out", "NFn")), N(u.Get("in", "NCh")), N(u.Get("out", "NCh")),
		// third-package types, alone and inside an unnamed struct
		N(u.Get("third", "T3")), N(u.Get("third", "ID3")), St(F("T", N(u.Get("third", "T3"))), F("I", N(u.Get("third", "ID3")))),
		// boundary lengths of fixed-size arrays (the main alphabet only has length 2)
		A(0, B("int")), A(0, p), A(1, B("int")), A(0, B("string")),
	)
	return l
}

// Comparable reports whether values of the type can be map keys.
func (t *Ty) Comparable() bool {
	u := t.Under()
	switch u.K {
	case Slice, Map, Func:
		return false
	case Array:
		return u.Elem.Comparable()
	case Struct:
		for _, f := range u.Fields {
			if !f.T.Comparable() {
				return false
			}
		}
	}
	return true
}

// Wrap applies every constructor of the alphabet to t.
func Wrap(t *Ty) []*Ty {
	out := []*Ty{P(t), S(t), A(2, t), M(B("string"), t), St(F("F", t)), St(F("F", t), F("G", t))}
	if t.Comparable() {
		out = append(out, M(t, B("string")))
	}
	return out
}

// Types enumerates all types of constructor depth ≤ depth over the leaves (deduplicated, deterministic order).
func Types(leaves []*Ty, depth int) []*Ty {
	seen := map[string]bool{}
	var all []*Ty
	add := func(t *Ty) bool {
		k := t.Key()
		if seen[k] {
			return false
		}
		seen[k] = true
		all = append(all, t)
		return true
	}
	level := []*Ty{}
	for _, l := range leaves {
		if add(l) {
			level = append(level, l)
		}
	}
	for d := 0; d < depth; d++ {
		var next []*Ty
		for _, t := range level {
			for _, w := range Wrap(t) {
				if add(w) {
					next = append(next, w)
				}
			}
		}
		level = next
	}
	return all
}
