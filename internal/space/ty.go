// Package space holds the finite alphabets (types, declarations, settings) that the
// explorers enumerate exhaustively. It knows nothing about goverter.
package space

import (
	"strconv"
	"fmt"
	"sort"
	"strings"
)

type Kind int

const (
	Basic Kind = iota // Name: int, string, ..., uintptr, unsafe.Pointer, complex128
	Named             // D points to the declaration
	Ptr
	Slice
	Array
	Map
	Struct
	Iface // interface type literal: Name "" = any, otherwise Methods text
	Func  // Name holds the signature text after "func"
	Chan  // Name holds direction: "", "<-", "->"
	Error // predeclared error
)

// Ty is an immutable type expression.
type Ty struct {
	K      Kind
	Name   string
	D      *Decl
	TArgs  []*Ty // generic instantiation arguments for Named
	Elem   *Ty
	MKey   *Ty
	N      int
	Fields []Field
}

type Field struct {
	Name string
	T    *Ty
	Tag  string // struct tag (part of the type's identity)
	// Embedded: declared without a field name; Name is the (unqualified) type name as in Go
	Embedded bool
}

// Const is an enum member.
type Const struct {
	Name string
	Lit  string // Go literal
}

// Method is an argument-less method on a named struct type (source of struct-method mapping).
type Method struct {
	Name    string
	Result  *Ty
	Err     bool
	PtrRecv bool
	Body    string // Go statements, receiver is "r"
}

// Decl is a named type declaration living in package Pkg ("in", "out", "conv", ...).
type Decl struct {
	Pkg     string
	Name    string
	Under   *Ty
	Consts  []Const
	Methods []Method
	TParams int // number of type parameters (0 = not generic); Under may reference TParam via Basic{Name:"T0"}
}

func B(name string) *Ty          { return &Ty{K: Basic, Name: name} }
func N(d *Decl, targs ...*Ty) *Ty { return &Ty{K: Named, D: d, TArgs: targs} }
func P(e *Ty) *Ty                { return &Ty{K: Ptr, Elem: e} }
func S(e *Ty) *Ty                { return &Ty{K: Slice, Elem: e} }
func A(n int, e *Ty) *Ty         { return &Ty{K: Array, N: n, Elem: e} }
func M(k, v *Ty) *Ty             { return &Ty{K: Map, MKey: k, Elem: v} }
func St(fs ...Field) *Ty         { return &Ty{K: Struct, Fields: fs} }
func F(name string, t *Ty) Field { return Field{Name: name, T: t} }
func Any() *Ty                   { return &Ty{K: Iface} }
func IfaceM(methods string) *Ty  { return &Ty{K: Iface, Name: methods} }
func Fn(sig string) *Ty          { return &Ty{K: Func, Name: sig} }
func Ch(dir string, e *Ty) *Ty   { return &Ty{K: Chan, Name: dir, Elem: e} }
func Err() *Ty                   { return &Ty{K: Error} }

// Go renders the type as Go source as seen from package fromPkg.
func (t *Ty) Go(fromPkg string) string {
	switch t.K {
	case Basic:
		return t.Name
	case Named:
		s := t.D.Name
		if t.D.Pkg != fromPkg {
			s = t.D.Pkg + "." + s
		}
		if len(t.TArgs) > 0 {
			var a []string
			for _, x := range t.TArgs {
				a = append(a, x.Go(fromPkg))
			}
			s += "[" + strings.Join(a, ", ") + "]"
		}
		return s
	case Ptr:
		return "*" + t.Elem.Go(fromPkg)
	case Slice:
		return "[]" + t.Elem.Go(fromPkg)
	case Array:
		return fmt.Sprintf("[%d]%s", t.N, t.Elem.Go(fromPkg))
	case Map:
		return "map[" + t.MKey.Go(fromPkg) + "]" + t.Elem.Go(fromPkg)
	case Struct:
		var b strings.Builder
		b.WriteString("struct{")
		for i, f := range t.Fields {
			if i > 0 {
				b.WriteString("; ")
			}
			if f.Embedded || f.Name == "" {
				b.WriteString(f.T.Go(fromPkg))
			} else {
				b.WriteString(f.Name + " " + f.T.Go(fromPkg))
			}
			if f.Tag != "" {
				b.WriteString(" " + strconv.Quote(f.Tag))
			}
		}
		b.WriteString("}")
		return b.String()
	case Iface:
		if t.Name == "" {
			return "interface{}"
		}
		return "interface{ " + t.Name + " }"
	case Func:
		return "func" + t.Name
	case Chan:
		switch t.Name {
		case "<-":
			return "<-chan " + t.Elem.Go(fromPkg)
		case "->":
			return "chan<- " + t.Elem.Go(fromPkg)
		}
		if t.Elem.K == Chan && t.Elem.Name == "<-" {
			return "chan (" + t.Elem.Go(fromPkg) + ")" // chan <-chan T would parse as chan<- (chan T)
		}
		return "chan " + t.Elem.Go(fromPkg)
	case Error:
		return "error"
	}
	panic("bad kind")
}

// Key is a canonical string: two Ty with equal Key denote identical Go types
// (all unnamed struct literals are assumed to be written in the same package).
func (t *Ty) Key() string { return t.Go("\x00") }

func (t *Ty) String() string { return t.Go("conv") }

// Under resolves named types (and generic instantiations) to their underlying type.
func (t *Ty) Under() *Ty {
	if t.K != Named {
		return t
	}
	u := t.D.Under
	if t.D.TParams > 0 {
		u = subst(u, t.TArgs)
	}
	return u.Under()
}

func subst(t *Ty, args []*Ty) *Ty {
	if t == nil {
		return nil
	}
	switch t.K {
	case Basic:
		if strings.HasPrefix(t.Name, "T") && len(t.Name) == 2 && t.Name[1] >= '0' && t.Name[1] <= '9' {
			return args[int(t.Name[1]-'0')]
		}
		return t
	case Named:
		if len(t.TArgs) == 0 {
			return t
		}
		n := *t
		n.TArgs = nil
		for _, a := range t.TArgs {
			n.TArgs = append(n.TArgs, subst(a, args))
		}
		return &n
	case Ptr, Slice, Array, Chan:
		n := *t
		n.Elem = subst(t.Elem, args)
		return &n
	case Map:
		n := *t
		n.MKey = subst(t.MKey, args)
		n.Elem = subst(t.Elem, args)
		return &n
	case Struct:
		n := *t
		n.Fields = nil
		for _, f := range t.Fields {
			n.Fields = append(n.Fields, Field{Name: f.Name, T: subst(f.T, args), Tag: f.Tag, Embedded: f.Embedded})
		}
		return &n
	}
	return t
}

// IsBasic reports whether the (underlying) type is a Go basic type and returns its kind name
// with aliases resolved (byte→uint8, rune→int32).
func (t *Ty) BasicKind() (string, bool) {
	u := t.Under()
	if u.K != Basic {
		return "", false
	}
	switch u.Name {
	case "byte":
		return "uint8", true
	case "rune":
		return "int32", true
	}
	return u.Name, true
}

func (t *Ty) IsNamed() bool { return t.K == Named }

// Depth is the constructor depth.
func (t *Ty) Depth() int {
	d := 0
	for _, c := range []*Ty{t.Elem, t.MKey} {
		if c != nil && c.Depth()+1 > d {
			d = c.Depth() + 1
		}
	}
	for _, f := range t.Fields {
		if f.T.Depth()+1 > d {
			d = f.T.Depth() + 1
		}
	}
	return d
}

// Decls collects all declarations reachable from t (transitively) into set.
func (t *Ty) Decls(set map[*Decl]bool) {
	if t == nil {
		return
	}
	if t.K == Named {
		if !set[t.D] {
			set[t.D] = true
			t.D.Under.Decls(set)
			for _, m := range t.D.Methods {
				m.Result.Decls(set)
			}
		}
		for _, a := range t.TArgs {
			a.Decls(set)
		}
		return
	}
	t.Elem.Decls(set)
	t.MKey.Decls(set)
	for _, f := range t.Fields {
		f.T.Decls(set)
	}
}

// UsesPkgs lists the packages that must be imported to write t in fromPkg.
func (t *Ty) UsesPkgs(fromPkg string, set map[string]bool) {
	if t == nil {
		return
	}
	switch t.K {
	case Named:
		if t.D.Pkg != fromPkg {
			set[t.D.Pkg] = true
		}
		for _, a := range t.TArgs {
			a.UsesPkgs(fromPkg, set)
		}
	case Basic:
		if t.Name == "unsafe.Pointer" {
			set["unsafe"] = true
		}
	default:
		t.Elem.UsesPkgs(fromPkg, set)
		t.MKey.UsesPkgs(fromPkg, set)
		for _, f := range t.Fields {
			f.T.UsesPkgs(fromPkg, set)
		}
	}
}

// Source renders the declaration.
func (d *Decl) Source() string {
	var b strings.Builder
	tp := ""
	if d.TParams > 0 {
		var ps []string
		for i := 0; i < d.TParams; i++ {
			ps = append(ps, fmt.Sprintf("T%d any", i))
		}
		tp = "[" + strings.Join(ps, ", ") + "]"
	}
	fmt.Fprintf(&b, "type %s%s %s\n", d.Name, tp, d.Under.Go(d.Pkg))
	if len(d.Consts) > 0 {
		b.WriteString("const (\n")
		for _, c := range d.Consts {
			fmt.Fprintf(&b, "\t%s %s = %s\n", c.Name, d.Name, c.Lit)
		}
		b.WriteString(")\n")
	}
	for _, m := range d.Methods {
		recv := d.Name
		if m.PtrRecv {
			recv = "*" + recv
		}
		res := m.Result.Go(d.Pkg)
		if m.Err {
			res = "(" + res + ", error)"
		}
		fmt.Fprintf(&b, "func (r %s) %s() %s { %s }\n", recv, m.Name, res, m.Body)
	}
	return b.String()
}

// PackageSource renders a package file containing the given declarations.
func PackageSource(pkg string, decls []*Decl, extra string) string {
	sort.Slice(decls, func(i, j int) bool { return decls[i].Name < decls[j].Name })
	imports := map[string]bool{}
	for _, d := range decls {
		d.Under.UsesPkgs(pkg, imports)
		for _, m := range d.Methods {
			m.Result.UsesPkgs(pkg, imports)
		}
	}
	var b strings.Builder
	fmt.Fprintf(&b, "package %s\n\n", pkg)
	var imps []string
	for p := range imports {
		imps = append(imps, p)
	}
	sort.Strings(imps)
	for _, p := range imps {
		fmt.Fprintf(&b, "import %s\n", ImportSpec(p))
	}
	b.WriteString("\n")
	for _, d := range decls {
		b.WriteString(d.Source())
		b.WriteString("\n")
	}
	b.WriteString(extra)
	return b.String()
}

// ModulePath is the module path of every scratch module.
const ModulePath = "vx"

// ImportSpec returns the quoted import path for a package key.
func ImportSpec(pkg string) string {
	switch pkg {
	case "unsafe":
		return fmt.Sprintf("%q", pkg)
	}
	return fmt.Sprintf("%q", ModulePath+"/"+pkg)
}
