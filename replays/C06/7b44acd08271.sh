#!/bin/bash
# stand-alone reproduction: recreates the input module, runs goverter (GOVERTER=path, default /verif/bin/goverter) and builds the result
export GOFLAGS=-mod=mod GOPROXY=off GOSUMDB=off GOTOOLCHAIN=local
d=$(mktemp -d); trap 'rm -rf "$d"' EXIT; cd "$d"
mkdir -p "$(dirname conv/conv.go)"
cat > conv/conv.go <<'VERIF_EOF'
package conv

import (
	"fmt"
	"unsafe"

	"vx/in"
	"vx/out"
	"vx/third"
)

var (
	_ unsafe.Pointer
	_ in.MyInt
	_ out.MyInt
	_ third.ID3
	_ = fmt.Sprint
)

type Boom struct{ V int }

func (b *Boom) Error() string         { return fmt.Sprintf("boom %d", b.V) }
func (b *Boom) VerifSentinel() string { return "boom" }

type MyErr interface{ Error() string }

type CvIface interface{ Convert() }

// goverter:converter
// goverter:output:format function
// goverter:extend Ext60033
type D60033F interface {
	// goverter:ignore Keep
	// goverter:default New60033
	// goverter:default:update
	ConvertXD60033F(source *in.S60033) *out.T60033
}

var seven60033 = 7

func New60033(s *in.S60033) out.T60033 { _ = s; return out.T60033{A: 77, B: "dflt", P: &seven60033, Keep: "kept"} }
func Ext60033(s in.S60033) out.T60033 { return out.T60033{A: s.A + 1000, B: "ext" + s.B, Keep: "extkeep"} }
VERIF_EOF
mkdir -p "$(dirname go.mod)"
cat > go.mod <<'VERIF_EOF'
module vx

go 1.22
VERIF_EOF
mkdir -p "$(dirname in/in.go)"
cat > in/in.go <<'VERIF_EOF'
package in


type Color int
const (
	Red Color = 1
	Green Color = 2
)

type G[T0 any] struct{V T0}

type Iface interface{ M() }

type KE int
const (
	KA KE = 1
	KB KE = 2
)

type Mode string
const (
	ModeA Mode = "a"
	ModeB Mode = "b"
)

type MyInt int

type MyStr string

type NCh <-chan int

type NFn func(a int, b ...string) error

type NM map[string]int

type NS []int

type P struct{X int; Y string}

type PR struct{X int; m map[string]int; p *int; l []int}

type PU struct{X int; y string}

type S60033 struct{A int; B string; P *int; M map[string]*int; Q **int}
VERIF_EOF
mkdir -p "$(dirname out/out.go)"
cat > out/out.go <<'VERIF_EOF'
package out


type Color int
const (
	Red Color = 1
	Green Color = 2
)

type G[T0 any] struct{V T0}

type Iface interface{ M() }

type KE int
const (
	KA KE = 11
	KB KE = 12
)

type Mode string
const (
	ModeA Mode = "a"
	ModeB Mode = "b"
)

type MyInt int

type MyStr string

type NCh <-chan int

type NFn func(a int, b ...string) error

type NM map[string]int

type NS []int

type P struct{X int; Y string}

type PR struct{X int; m map[string]int; p *int; l []int}

type PU struct{X int; y string}

type T60033 struct{A int; B string; P *int; M map[string]*int; Q **int; Keep string}
VERIF_EOF
mkdir -p "$(dirname third/third.go)"
cat > third/third.go <<'VERIF_EOF'
package third


type ID3 int

type T3 struct{V int; W string}
VERIF_EOF
"${GOVERTER:-/verif/bin/goverter}" gen ./conv; echo "goverter-exit=$?"
find . -name '*.go' -newer go.mod -path '*gen*' | head -5
go build ./... ; echo "build-exit=$?"
