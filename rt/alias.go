package rt

import (
	"fmt"
	"reflect"
)

// Region is a piece of mutable memory reachable from a value.
type Region struct {
	Lo, Hi uintptr
	What   string // path description
	MapID  uintptr
}

// Regions collects all mutable memory reachable from v: pointer targets, slice backing arrays, maps.
func Regions(v reflect.Value, path string) []Region {
	var out []Region
	regions(v, path, &out, map[visit]bool{}, 0)
	return out
}

func regions(v reflect.Value, path string, out *[]Region, seen map[visit]bool, d int) {
	if !v.IsValid() || d > 100 {
		return
	}
	v = rw(v)
	switch v.Kind() {
	case reflect.Ptr:
		if v.IsNil() {
			return
		}
		k := visit{a: v.UnsafePointer(), t: v.Type()}
		if seen[k] {
			return
		}
		seen[k] = true
		sz := v.Type().Elem().Size()
		if sz > 0 {
			*out = append(*out, Region{Lo: v.Pointer(), Hi: v.Pointer() + sz, What: path + "(*)"})
		}
		regions(v.Elem(), path+".*", out, seen, d+1)
	case reflect.Slice:
		if v.IsNil() {
			return
		}
		sz := v.Type().Elem().Size()
		if v.Cap() > 0 && sz > 0 {
			*out = append(*out, Region{Lo: v.Pointer(), Hi: v.Pointer() + uintptr(v.Cap())*sz, What: path + "(backing)"})
		}
		for i := 0; i < v.Len(); i++ {
			regions(v.Index(i), fmt.Sprintf("%s[%d]", path, i), out, seen, d+1)
		}
	case reflect.Array:
		for i := 0; i < v.Len(); i++ {
			regions(v.Index(i), fmt.Sprintf("%s[%d]", path, i), out, seen, d+1)
		}
	case reflect.Map:
		if v.IsNil() {
			return
		}
		k := visit{a: v.UnsafePointer(), t: v.Type()}
		if seen[k] {
			return
		}
		seen[k] = true
		*out = append(*out, Region{MapID: v.Pointer(), What: path + "(map)"})
		it := v.MapRange()
		for it.Next() {
			regions(it.Key(), path+"<key>", out, seen, d+1)
			regions(it.Value(), fmt.Sprintf("%s[%v]", path, it.Key()), out, seen, d+1)
		}
	case reflect.Struct:
		if !v.CanAddr() {
			v = addressable(v)
		}
		for i := 0; i < v.NumField(); i++ {
			regions(rw(v.Field(i)), path+"."+v.Type().Field(i).Name, out, seen, d+1)
		}
	case reflect.Interface:
		if !v.IsNil() {
			regions(v.Elem(), path+".(iface)", out, seen, d+1)
		}
	}
}

// Overlap reports the first pair of overlapping regions between a and b that is not covered by allowed.
func Overlap(a, b, allowed []Region) string {
	ok := func(r Region) bool {
		for _, al := range allowed {
			if r.MapID != 0 && r.MapID == al.MapID {
				return true
			}
			if r.MapID == 0 && al.MapID == 0 && r.Lo >= al.Lo && r.Hi <= al.Hi {
				return true
			}
		}
		return false
	}
	for _, x := range a {
		for _, y := range b {
			shared := false
			if x.MapID != 0 || y.MapID != 0 {
				shared = x.MapID != 0 && x.MapID == y.MapID
			} else {
				shared = x.Lo < y.Hi && y.Lo < x.Hi
			}
			if shared && !ok(y) {
				return fmt.Sprintf("source %s and result %s share memory", x.What, y.What)
			}
		}
	}
	return ""
}

// SharedAllowed walks plan and source value together and returns the regions of source sub-values at
// positions where the model permits sharing (skipCopySameType "share" and custom functions).
func (in *Interp) SharedAllowed(p *Plan, src reflect.Value) []Region {
	var out []Region
	in.shared(p, src, &out, 0)
	return out
}

func (in *Interp) shared(p *Plan, src reflect.Value, out *[]Region, d int) {
	if p == nil || !src.IsValid() || d > 60 {
		return
	}
	src = rw(src)
	switch p.Op {
	case "share", "custom":
		*out = append(*out, Regions(src, "shared")...)
	case "cast":
		in.shared(p.In, src, out, d+1)
	case "ref":
		in.shared(in.Set.Defs[p.Ref], src, out, d+1)
	case "ptr", "ptr2val":
		if !src.IsNil() {
			in.shared(p.In, src.Elem(), out, d+1)
		}
	case "val2ptr":
		in.shared(p.In, src, out, d+1)
	case "slice", "arr2slice":
		if p.Op == "slice" && src.IsNil() {
			return
		}
		for i := 0; i < src.Len(); i++ {
			in.shared(p.In, src.Index(i), out, d+1)
		}
	case "map":
		if src.IsNil() {
			return
		}
		it := src.MapRange()
		for it.Next() {
			in.shared(p.K, it.Key(), out, d+1)
			in.shared(p.V, it.Value(), out, d+1)
		}
	case "struct":
		if !src.CanAddr() {
			src = addressable(src)
		}
		for i := range p.Fields {
			fp := &p.Fields[i]
			if fp.Ignore || fp.NoSource {
				continue
			}
			sv, err := in.source(fp, src)
			if err != nil || !sv.IsValid() {
				continue
			}
			if fp.PtrLift && sv.Kind() == reflect.Ptr && !sv.IsNil() && fp.Plan != nil && (fp.Plan.Op == "ptr" || fp.Plan.Op == "ptr2val") {
				// lifted pointer is a fresh copy of the leaf; share analysis continues below it
			}
			in.shared(fp.Plan, sv, out, d+1)
		}
	}
}
