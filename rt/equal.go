package rt

import (
	"fmt"
	"math"
	"reflect"
	"sort"
	"unsafe"
)

type visit struct {
	a, b unsafe.Pointer
	t    reflect.Type
	n    int
}

// Equal is a deep structural comparison that distinguishes nil from empty containers, compares floats
// bit-wise and reads unexported fields. It returns "" when equal, otherwise the path of the first difference.
func Equal(a, b reflect.Value) string {
	return eq(a, b, "", map[visit]bool{}, 0)
}

func eq(a, b reflect.Value, path string, seen map[visit]bool, d int) string {
	if !a.IsValid() || !b.IsValid() {
		if a.IsValid() == b.IsValid() {
			return ""
		}
		return path + ": one side invalid"
	}
	if a.Type() != b.Type() {
		return fmt.Sprintf("%s: type %s vs %s", path, a.Type(), b.Type())
	}
	if d > 500 {
		return path + ": too deep"
	}
	a, b = rw(a), rw(b)
	switch a.Kind() {
	case reflect.Ptr:
		if a.IsNil() || b.IsNil() {
			if a.IsNil() == b.IsNil() {
				return ""
			}
			return fmt.Sprintf("%s: nil=%v vs nil=%v", path, a.IsNil(), b.IsNil())
		}
		v := visit{a: a.UnsafePointer(), b: b.UnsafePointer(), t: a.Type()}
		if seen[v] {
			return ""
		}
		seen[v] = true
		return eq(a.Elem(), b.Elem(), path+".*", seen, d+1)
	case reflect.Slice:
		if a.IsNil() != b.IsNil() {
			return fmt.Sprintf("%s: nil slice=%v vs %v", path, a.IsNil(), b.IsNil())
		}
		fallthrough
	case reflect.Array:
		if a.Len() != b.Len() {
			return fmt.Sprintf("%s: len %d vs %d", path, a.Len(), b.Len())
		}
		for i := 0; i < a.Len(); i++ {
			if r := eq(a.Index(i), b.Index(i), fmt.Sprintf("%s[%d]", path, i), seen, d+1); r != "" {
				return r
			}
		}
		return ""
	case reflect.Map:
		if a.IsNil() != b.IsNil() {
			return fmt.Sprintf("%s: nil map=%v vs %v", path, a.IsNil(), b.IsNil())
		}
		if a.Len() != b.Len() {
			return fmt.Sprintf("%s: map len %d vs %d", path, a.Len(), b.Len())
		}
		if hasPointer(a.Type().Key()) {
			// keys with pointers are never identical between two conversions: compare the multisets of printed entries
			pa, pb := mapEntries(a), mapEntries(b)
			for i := range pa {
				if pa[i] != pb[i] {
					return fmt.Sprintf("%s: entries differ: %s vs %s", path, pa[i], pb[i])
				}
			}
			return ""
		}
		it := a.MapRange()
		for it.Next() {
			bv := b.MapIndex(it.Key())
			if !bv.IsValid() {
				// keys that are pointers (or contain them) are compared structurally
				found := false
				jt := b.MapRange()
				for jt.Next() {
					if eq(it.Key(), jt.Key(), path, map[visit]bool{}, d+1) == "" {
						bv = jt.Value()
						found = true
						break
					}
				}
				if !found {
					return fmt.Sprintf("%s: key %v missing", path, it.Key())
				}
			}
			if r := eq(it.Value(), bv, fmt.Sprintf("%s[%v]", path, it.Key()), seen, d+1); r != "" {
				return r
			}
		}
		return ""
	case reflect.Struct:
		for i := 0; i < a.NumField(); i++ {
			af, bf := a.Field(i), b.Field(i)
			if !af.CanInterface() {
				if !a.CanAddr() {
					a = addressable(a)
				}
				if !b.CanAddr() {
					b = addressable(b)
				}
				af, bf = rw(a.Field(i)), rw(b.Field(i))
			}
			if r := eq(af, bf, path+"."+a.Type().Field(i).Name, seen, d+1); r != "" {
				return r
			}
		}
		return ""
	case reflect.Interface:
		if a.IsNil() || b.IsNil() {
			if a.IsNil() == b.IsNil() {
				return ""
			}
			return fmt.Sprintf("%s: nil iface=%v vs %v", path, a.IsNil(), b.IsNil())
		}
		return eq(a.Elem(), b.Elem(), path+".(iface)", seen, d+1)
	case reflect.Func, reflect.Chan, reflect.UnsafePointer:
		if a.Pointer() != b.Pointer() {
			return fmt.Sprintf("%s: %s identity differs", path, a.Kind())
		}
		return ""
	case reflect.Float32, reflect.Float64:
		if math.Float64bits(a.Float()) != math.Float64bits(b.Float()) {
			return fmt.Sprintf("%s: %v vs %v", path, a.Float(), b.Float())
		}
		return ""
	case reflect.Complex64, reflect.Complex128:
		if a.Complex() != b.Complex() {
			return fmt.Sprintf("%s: %v vs %v", path, a.Complex(), b.Complex())
		}
		return ""
	case reflect.Bool:
		if a.Bool() != b.Bool() {
			return fmt.Sprintf("%s: %v vs %v", path, a.Bool(), b.Bool())
		}
		return ""
	case reflect.String:
		if a.String() != b.String() {
			return fmt.Sprintf("%s: %q vs %q", path, a.String(), b.String())
		}
		return ""
	case reflect.Int, reflect.Int8, reflect.Int16, reflect.Int32, reflect.Int64:
		if a.Int() != b.Int() {
			return fmt.Sprintf("%s: %d vs %d", path, a.Int(), b.Int())
		}
		return ""
	case reflect.Uint, reflect.Uint8, reflect.Uint16, reflect.Uint32, reflect.Uint64, reflect.Uintptr:
		if a.Uint() != b.Uint() {
			return fmt.Sprintf("%s: %d vs %d", path, a.Uint(), b.Uint())
		}
		return ""
	}
	return path + ": unsupported kind " + a.Kind().String()
}

// Clone makes a deep copy that preserves internal sharing (same pointer/slice/map reached twice stays shared).
func Clone(v reflect.Value) reflect.Value {
	return clone(v, map[visit]reflect.Value{})
}

func clone(v reflect.Value, memo map[visit]reflect.Value) reflect.Value {
	if !v.IsValid() {
		return v
	}
	v = rw(v)
	switch v.Kind() {
	case reflect.Ptr:
		if v.IsNil() {
			return v
		}
		k := visit{a: v.UnsafePointer(), t: v.Type()}
		if c, ok := memo[k]; ok {
			return c
		}
		n := reflect.New(v.Type().Elem())
		c := n.Convert(v.Type())
		memo[k] = c
		n.Elem().Set(clone(v.Elem(), memo))
		return c
	case reflect.Slice:
		if v.IsNil() {
			return v
		}
		k := visit{a: v.UnsafePointer(), t: v.Type(), n: v.Len()}
		if c, ok := memo[k]; ok && v.Cap() > 0 {
			return c
		}
		n := reflect.MakeSlice(v.Type(), v.Len(), v.Cap())
		memo[k] = n
		for i := 0; i < v.Len(); i++ {
			n.Index(i).Set(clone(v.Index(i), memo))
		}
		return n
	case reflect.Array:
		n := reflect.New(v.Type()).Elem()
		for i := 0; i < v.Len(); i++ {
			n.Index(i).Set(clone(v.Index(i), memo))
		}
		return n
	case reflect.Map:
		if v.IsNil() {
			return v
		}
		k := visit{a: v.UnsafePointer(), t: v.Type()}
		if c, ok := memo[k]; ok {
			return c
		}
		n := reflect.MakeMapWithSize(v.Type(), v.Len())
		memo[k] = n
		it := v.MapRange()
		for it.Next() {
			n.SetMapIndex(clone(it.Key(), memo), clone(it.Value(), memo))
		}
		return n
	case reflect.Struct:
		n := reflect.New(v.Type()).Elem()
		if !v.CanAddr() {
			v = addressable(v)
		}
		for i := 0; i < v.NumField(); i++ {
			setField(n, i, clone(rw(v.Field(i)), memo))
		}
		return n
	case reflect.Interface:
		if v.IsNil() {
			return v
		}
		n := reflect.New(v.Type()).Elem()
		n.Set(clone(v.Elem(), memo))
		return n
	}
	return v
}

func hasPointer(t reflect.Type) bool {
	switch t.Kind() {
	case reflect.Ptr, reflect.Interface, reflect.Chan, reflect.UnsafePointer:
		return true
	case reflect.Array:
		return hasPointer(t.Elem())
	case reflect.Struct:
		for i := 0; i < t.NumField(); i++ {
			if hasPointer(t.Field(i).Type) {
				return true
			}
		}
	}
	return false
}

func mapEntries(m reflect.Value) []string {
	var out []string
	it := m.MapRange()
	for it.Next() {
		out = append(out, Show(it.Key())+"=>"+Show(it.Value()))
	}
	sort.Strings(out)
	return out
}
