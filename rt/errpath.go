package rt

import (
	"errors"
	"fmt"
	"reflect"
	"regexp"
	"strconv"
	"strings"
)

// PathCarrier is implemented by the scratch module's wrapErrorsUsing package: elements are encoded as
// "F:<field>", "I:<index>", "K:<%v of key>", outermost first for one Wrap call; inner is the wrapped error.
type PathCarrier interface {
	VerifPath() (elems []string, inner error)
}

// Sentinel is implemented by errors returned from fallible custom functions of scratch modules.
type Sentinel interface{ VerifSentinel() string }

// flattenPath concatenates all Wrap calls outermost first.
func flattenPath(err error) (elems []string, root error) {
	for err != nil {
		var pc PathCarrier
		if errors.As(err, &pc) {
			e, inner := pc.VerifPath()
			elems = append(elems, e...)
			err = inner
			continue
		}
		break
	}
	return elems, err
}

// wrapperPkgs lists the packages of the wrapErrorsUsing wrappers around err, outermost first.
func wrapperPkgs(err error) (pkgs []string) {
	for err != nil {
		var pc PathCarrier
		if !errors.As(err, &pc) {
			break
		}
		if wp, ok := pc.(interface{ VerifPkg() string }); ok {
			pkgs = append(pkgs, wp.VerifPkg())
		} else {
			pkgs = append(pkgs, "?")
		}
		_, err = pc.VerifPath()
	}
	return pkgs
}

var (
	reField = regexp.MustCompile(`^error setting field ([A-Za-z_0-9]+): `)
	reIndex = regexp.MustCompile(`^error setting index (-?[0-9]+): `)
)

// parseWrapErrors parses the fmt.Errorf chain produced by goverter:wrapErrors.
func parseWrapErrors(msg string) (elems []string) {
	for {
		if m := reField.FindStringSubmatch(msg); m != nil {
			elems = append(elems, "F:"+m[1])
			msg = msg[len(m[0]):]
			continue
		}
		if m := reIndex.FindStringSubmatch(msg); m != nil {
			elems = append(elems, "I:"+m[1])
			msg = msg[len(m[0]):]
			continue
		}
		return elems
	}
}

// checkErr validates a non-nil error returned by generated code against the model:
// it must wrap a sentinel of a custom function (or be a model @error), and its reported location must lead to
// a failing element of the source value.
func (in *Interp) checkErr(ps *PlanSet, src reflect.Value, err error, modes map[string]bool) string {
	var s Sentinel
	isSentinel := errors.As(err, &s)
	if !isSentinel && !strings.Contains(err.Error(), "unexpected enum element") {
		return "returned error neither wraps the error of a failing custom function nor is an enum @error: " + err.Error()
	}
	switch {
	case modes["nowrap"]:
		if _, direct := err.(Sentinel); !direct && isSentinel {
			return "no error wrapping is in effect but the returned error is not the custom function's error itself: " + err.Error()
		}
	case modes["wrapusing"], modes["wrapusing-partial"]:
		elems, _ := flattenPath(err)
		in.LooseLast = modes["wrapusing-partial"] // only the method's own elements are wrapped
		ok, why := in.matchPath(ps.Root, src, elems, modes["wrapusing"], "", 0)
		in.LooseLast = false
		if !ok {
			return fmt.Sprintf("reported location %v does not lead to a failing element (%s)", elems, why)
		}
		// which wrapper package produced the outermost / innermost wrapper, and how many wrappers there are
		pkgs := wrapperPkgs(err)
		for m := range modes {
			switch {
			case strings.HasPrefix(m, "wrappkg:"):
				if want := strings.TrimPrefix(m, "wrappkg:"); len(pkgs) == 0 || pkgs[0] != want {
					return fmt.Sprintf("outermost error wrapper comes from %v, the wrapErrorsUsing package in effect for the method is %s", pkgs, want)
				}
			case strings.HasPrefix(m, "wrappkg-inner:"):
				if want := strings.TrimPrefix(m, "wrappkg-inner:"); len(pkgs) == 0 || pkgs[len(pkgs)-1] != want {
					return fmt.Sprintf("innermost error wrapper comes from %v, the wrapErrorsUsing package in effect for generated methods is %s", pkgs, want)
				}
			case strings.HasPrefix(m, "wrapcount:"):
				if want, _ := strconv.Atoi(strings.TrimPrefix(m, "wrapcount:")); len(pkgs) != want {
					return fmt.Sprintf("error is wrapped %d times (%v), expected %d", len(pkgs), pkgs, want)
				}
			}
		}
	case modes["wraperrors"]:
		elems := parseWrapErrors(err.Error())
		ok, why := in.matchPath(ps.Root, src, elems, false, "", 0)
		if !ok {
			return fmt.Sprintf("wrapErrors location %v is not an order-preserving part of a path to a failing element (%s)", elems, why)
		}
	}
	return ""
}

// fails reports whether evaluating p on v fails directly (without crossing a path-contributing node).
func (in *Interp) failsHere(p *Plan, v reflect.Value, dt reflect.Type) bool {
	defer func() { recover() }()
	_, err := in.Eval(p, v, dt)
	if err == nil {
		return false
	}
	var pe *PathErr
	return !errors.As(err, &pe)
}

// matchPath searches for a failing element reachable through plan/value whose path equals (exact) or
// order-preservingly contains (not exact) the reported elements. For the non-exact form the last path
// element, if it is a field or an index, must be the last reported element.
func (in *Interp) matchPath(p *Plan, v reflect.Value, rep []string, exact bool, last string, d int) (bool, string) {
	if p == nil || d > 80 || !v.IsValid() {
		return false, "no plan"
	}
	v = rw(v)
	switch p.Op {
	case "ref":
		return in.matchPath(in.Set.Defs[p.Ref], v, rep, exact, last, d+1)
	case "cast":
		return in.matchPath(p.In, v, rep, exact, last, d+1)
	case "custom", "enum":
		if len(rep) != 0 {
			return false, "location continues below the failing call: " + strings.Join(rep, ",")
		}
		if !exact && !in.LooseLast && last != "" && !strings.HasPrefix(last, "K:") && !strings.HasPrefix(last, "+") {
			return false, "innermost element " + last + " not reported"
		}
		// does it fail on this value?
		if p.Op == "custom" {
			fn := in.Funcs[p.Fn]
			if !fn.IsValid() || !p.Fallible {
				return false, "not fallible"
			}
			failed := false
			func() {
				defer func() { recover() }()
				_, err := in.call(p, v, fn.Type().Out(0))
				failed = err != nil
			}()
			if !failed {
				return false, "element at location does not fail"
			}
			return true, ""
		}
		key := fmt.Sprintf("%v", v.Interface())
		act, ok := p.Enum.Cases[key]
		if !ok {
			act = p.Enum.Unknown
		}
		return act == "@error", "enum element not an @error"
	case "default":
		// the constructor runs first: when it fails, this position is the failing element
		if fn := in.Funcs[p.K.Fn]; fn.IsValid() && p.K.Fallible {
			failed := false
			func() {
				defer func() { recover() }()
				_, err := in.call(p.K, v, fn.Type().Out(0))
				failed = err != nil
			}()
			if failed {
				if len(rep) != 0 {
					return false, "location continues below the failing constructor: " + strings.Join(rep, ",")
				}
				if !exact && !in.LooseLast && last != "" && !strings.HasPrefix(last, "K:") && !strings.HasPrefix(last, "+") {
					return false, "innermost element " + last + " not reported"
				}
				return true, ""
			}
		}
		switch p.Ref {
		case "ptr-update", "srcptr-update":
			if v.IsNil() {
				return false, "nil"
			}
			return in.matchPath(p.In, v.Elem(), rep, exact, last, d+1)
		case "nil-default":
			if v.Kind() == reflect.Ptr && v.IsNil() {
				return false, "nil"
			}
		}
		return in.matchPath(p.In, v, rep, exact, last, d+1)
	case "ptr", "ptr2val":
		if v.IsNil() {
			return false, "nil"
		}
		return in.matchPath(p.In, v.Elem(), rep, exact, last, d+1)
	case "val2ptr":
		return in.matchPath(p.In, v, rep, exact, last, d+1)
	case "slice", "arr2slice":
		if p.Op == "slice" && v.IsNil() {
			return false, "nil"
		}
		why := "no failing element"
		for i := 0; i < v.Len(); i++ {
			el := "I:" + strconv.Itoa(i)
			if len(rep) > 0 && rep[0] == el {
				if ok, w := in.matchPath(p.In, v.Index(i), rep[1:], exact, "+"+el, d+1); ok {
					return true, ""
				} else {
					why = w
				}
			}
			if !exact {
				if ok, w := in.matchPath(p.In, v.Index(i), rep, exact, el, d+1); ok {
					return true, ""
				} else if w != "" {
					why = w
				}
			}
		}
		return false, why
	case "map":
		if v.IsNil() {
			return false, "nil"
		}
		why := "no failing entry"
		it := v.MapRange()
		for it.Next() {
			el := "K:" + fmt.Sprintf("%v", it.Key().Interface())
			for _, sub := range []struct {
				p *Plan
				v reflect.Value
			}{{p.K, it.Key()}, {p.V, it.Value()}} {
				if len(rep) > 0 && rep[0] == el {
					if ok, w := in.matchPath(sub.p, sub.v, rep[1:], exact, "+"+el, d+1); ok {
						return true, ""
					} else {
						why = w
					}
				}
				if !exact {
					if ok, w := in.matchPath(sub.p, sub.v, rep, exact, el, d+1); ok {
						return true, ""
					} else if w != "" {
						why = w
					}
				}
			}
		}
		return false, why
	case "struct":
		if !v.CanAddr() {
			v = addressable(v)
		}
		why := "no failing field"
		for i := range p.Fields {
			fp := &p.Fields[i]
			if fp.Ignore {
				continue
			}
			el := "F:" + fp.Target
			var sv reflect.Value
			if !fp.NoSource {
				var err error
				sv, err = in.source(fp, v)
				if err != nil {
					// failing struct-method source: the field itself is the failing element
					if (len(rep) == 1 && rep[0] == el) || (!exact && len(rep) == 0) {
						return true, ""
					}
					continue
				}
				if fp.ZeroGuard && sv.IsZero() {
					continue
				}
			} else {
				sv = reflect.ValueOf(0)
			}
			if len(rep) > 0 && rep[0] == el {
				if ok, w := in.matchPath(fp.Plan, sv, rep[1:], exact, "+"+el, d+1); ok {
					return true, ""
				} else {
					why = w
				}
			}
			if !exact {
				if ok, w := in.matchPath(fp.Plan, sv, rep, exact, el, d+1); ok {
					return true, ""
				} else if w != "" {
					why = w
				}
			}
		}
		return false, why
	}
	return false, "op " + p.Op + " cannot fail"
}
