module verifrt

go 1.22.0
