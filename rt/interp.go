package rt

import (
	"fmt"
	"reflect"
)

// Interp evaluates Plans with reflect: the executable form of the reference model.
type Interp struct {
	Set *PlanSet
	// Funcs: registered custom functions by name.
	Funcs map[string]reflect.Value
	// CtxArgs: top-level context argument values (by index of the top-level method's context list).
	CtxArgs []reflect.Value
	// Conv: the converter instance (passed to custom functions that take the converter interface).
	Conv reflect.Value
	// NonInjective is set when a map conversion merged two source keys (the properties assume injective key conversions)
	NonInjective bool
	// NilKeeps: in update assignments a nil pointer/slice/map source leaves the target field untouched
	// (the alternative, equally acceptable behaviour for zero-valued nillable sources without a zero-value setting).
	NilKeeps bool
	// LooseLast: the error-path oracle does not require the innermost element to be reported (partial wrapping)
	LooseLast bool
	// Ambiguous: entries of one map end the conversion differently (error vs panic); iteration order decides
	Ambiguous bool
	depth     int
}

// ModelPanic is raised by the interpreter where the model says the generated code must panic (enum @panic).
type ModelPanic struct{ Msg string }

// ModelError is the error value the model produces for @error actions.
type ModelError struct{ Msg string }

func (e *ModelError) Error() string { return e.Msg }

// ErrDepth aborts interpretation of runaway recursion.
var errDepth = fmt.Errorf("rt: interpretation depth exceeded")

// Conv interprets plan p on src producing a value of type dt. pre is the previous value of the target
// position (zero Value for fresh conversions; the pre-state for update/default:update positions).
func (in *Interp) Eval(p *Plan, src reflect.Value, dt reflect.Type) (out reflect.Value, err error) {
	in.depth++
	defer func() { in.depth-- }()
	if in.depth > 200 {
		return reflect.Zero(dt), errDepth
	}
	if p == nil {
		return reflect.Zero(dt), fmt.Errorf("rt: nil plan")
	}
	switch p.Op {
	case "copy":
		return src.Convert(dt), nil
	case "share":
		return src, nil
	case "cast":
		s := src
		v, err := in.Eval(p.In, s, underlyingFor(p, s, dt))
		if err != nil {
			return reflect.Zero(dt), err
		}
		return v.Convert(dt), nil
	case "ref":
		d, ok := in.Set.Defs[p.Ref]
		if !ok || d == nil {
			return reflect.Zero(dt), fmt.Errorf("rt: missing def %s", p.Ref)
		}
		return in.Eval(d, src, dt)
	case "ptr":
		if src.IsNil() {
			return reflect.Zero(dt), nil
		}
		v, err := in.Eval(p.In, src.Elem(), dt.Elem())
		if err != nil {
			return reflect.Zero(dt), err
		}
		n := reflect.New(dt.Elem())
		n.Elem().Set(v)
		return n.Convert(dt), nil
	case "val2ptr":
		v, err := in.Eval(p.In, src, dt.Elem())
		if err != nil {
			return reflect.Zero(dt), err
		}
		n := reflect.New(dt.Elem())
		n.Elem().Set(v)
		return n.Convert(dt), nil
	case "ptr2val":
		if src.IsNil() {
			return reflect.Zero(dt), nil
		}
		return in.Eval(p.In, src.Elem(), dt)
	case "slice":
		if src.IsNil() {
			return reflect.Zero(dt), nil
		}
		fallthrough
	case "arr2slice":
		n := src.Len()
		s := reflect.MakeSlice(dt, n, n)
		for i := 0; i < n; i++ {
			v, err := in.Eval(p.In, src.Index(i), dt.Elem())
			if err != nil {
				return reflect.Zero(dt), &PathErr{Elem: fmt.Sprintf("[%d]", i), Idx: i, Kind: "index", Err: err}
			}
			s.Index(i).Set(v)
		}
		return s, nil
	case "map":
		if src.IsNil() {
			return reflect.Zero(dt), nil
		}
		m := reflect.MakeMapWithSize(dt, src.Len())
		it := src.MapRange()
		// Go iterates maps in random order: when several entries end the conversion differently (one with an
		// error, another with a panic) either outcome is possible. All entries are evaluated to find out.
		var firstErr error
		var firstPanic any
		for it.Next() {
			func() {
				defer func() {
					if r := recover(); r != nil {
						if _, ok := r.(*ModelPanic); !ok {
							panic(r)
						}
						if firstPanic == nil {
							firstPanic = r
						}
					}
				}()
				k, err := in.Eval(p.K, it.Key(), dt.Key())
				if err != nil {
					if firstErr == nil {
						firstErr = &PathErr{Kind: "key", Key: it.Key().Interface(), Err: err}
					}
					return
				}
				v, err := in.Eval(p.V, it.Value(), dt.Elem())
				if err != nil {
					if firstErr == nil {
						firstErr = &PathErr{Kind: "key", Key: it.Key().Interface(), Err: err}
					}
					return
				}
				m.SetMapIndex(k, v)
			}()
		}
		switch {
		case firstErr != nil && firstPanic != nil:
			in.Ambiguous = true
			return reflect.Zero(dt), firstErr
		case firstPanic != nil:
			panic(firstPanic)
		case firstErr != nil:
			return reflect.Zero(dt), firstErr
		}
		if m.Len() < src.Len() {
			in.NonInjective = true
		}
		return m, nil
	case "struct":
		dst := reflect.New(dt).Elem()
		if err := in.structInto(p, src, dst); err != nil {
			return dst, err
		}
		return dst, nil
	case "enum":
		return in.enum(p.Enum, src, dt)
	case "default":
		return in.defaultOp(p, src, dt)
	case "custom":
		return in.call(p, src, dt)
	}
	return reflect.Zero(dt), fmt.Errorf("rt: unknown op %q", p.Op)
}

func underlyingFor(p *Plan, s reflect.Value, dt reflect.Type) reflect.Type { return dt }

// PathErr records where the model expects an error to be located.
type PathErr struct {
	Kind string // field | index | key
	Elem string
	Name string
	Idx  int
	Key  any
	Err  error
}

func (e *PathErr) Error() string { return e.Kind + ":" + e.Elem + ": " + e.Err.Error() }
func (e *PathErr) Unwrap() error { return e.Err }

// structInto assigns the planned fields of dst (addressable struct) from src.
func (in *Interp) structInto(p *Plan, src reflect.Value, dst reflect.Value) error {
	if !src.CanAddr() {
		src = addressable(src)
	}
	for i := range p.Fields {
		fp := &p.Fields[i]
		if fp.Ignore {
			continue
		}
		sf, ok := dst.Type().FieldByName(fp.Target)
		if !ok {
			return fmt.Errorf("rt: target field %s missing", fp.Target)
		}
		tf := rw(dst.FieldByIndex(sf.Index))
		var sv reflect.Value
		if !fp.NoSource {
			var err error
			sv, err = in.source(fp, src)
			if err != nil {
				return &PathErr{Kind: "field", Elem: fp.Target, Name: fp.Target, Err: err}
			}
			if fp.ZeroGuard && sv.IsZero() {
				continue
			}
			if in.NilKeeps {
				switch sv.Kind() {
				case reflect.Ptr, reflect.Slice, reflect.Map:
					if sv.IsNil() {
						continue
					}
				}
			}
		}
		if fp.Plan != nil && fp.Plan.Op == "struct" && tf.Kind() == reflect.Struct {
			// inline (unnamed) struct positions are assigned field by field onto the existing target value
			if err := in.structInto(fp.Plan, sv, tf); err != nil {
				return &PathErr{Kind: "field", Elem: fp.Target, Name: fp.Target, Err: err}
			}
			continue
		}
		v, err := in.Eval(fp.Plan, sv, tf.Type())
		if err != nil {
			return &PathErr{Kind: "field", Elem: fp.Target, Name: fp.Target, Err: err}
		}
		tf.Set(v)
	}
	return nil
}

// source evaluates the source expression of a field plan.
func (in *Interp) source(fp *FieldPlan, src reflect.Value) (reflect.Value, error) {
	if fp.Whole {
		if fp.AddrOf {
			if !src.CanAddr() {
				src = addressable(src)
			}
			return src.Addr(), nil
		}
		return src, nil
	}
	cur := src
	// static type walk for the nil case
	leafT := src.Type()
	for i, seg := range fp.Path {
		if leafT.Kind() == reflect.Ptr {
			leafT = leafT.Elem()
		}
		if fp.Method && i == len(fp.Path)-1 {
			m, ok := reflect.PointerTo(leafT).MethodByName(seg)
			if !ok {
				return reflect.Value{}, fmt.Errorf("rt: method %s missing on %s", seg, leafT)
			}
			leafT = m.Type.Out(0)
		} else {
			f, ok := leafT.FieldByName(seg)
			if !ok {
				return reflect.Value{}, fmt.Errorf("rt: field %s missing on %s", seg, leafT)
			}
			leafT = f.Type
		}
	}
	exprT := leafT
	if fp.PtrLift && leafT.Kind() != reflect.Ptr {
		exprT = reflect.PointerTo(leafT)
	}
	for i, seg := range fp.Path {
		if cur.Kind() == reflect.Ptr {
			if cur.IsNil() {
				return reflect.Zero(exprT), nil
			}
			cur = cur.Elem()
		}
		if fp.Method && i == len(fp.Path)-1 {
			if !cur.CanAddr() {
				cur = addressable(cur)
			}
			m := cur.Addr().MethodByName(seg)
			outs := m.Call(nil)
			if fp.MErr && !outs[1].IsNil() {
				return reflect.Value{}, outs[1].Interface().(error)
			}
			cur = outs[0]
		} else {
			cur = rw(cur.FieldByName(seg))
		}
	}
	if fp.PtrLift && cur.Kind() != reflect.Ptr {
		n := reflect.New(cur.Type())
		n.Elem().Set(cur)
		return n, nil
	}
	return cur, nil
}

func (in *Interp) enum(ep *EnumPlan, src reflect.Value, dt reflect.Type) (reflect.Value, error) {
	key := fmt.Sprintf("%v", src.Interface())
	act, ok := ep.Cases[key]
	if !ok {
		act = ep.Unknown
	}
	switch act {
	case "@ignore":
		return reflect.Zero(dt), nil
	case "@panic":
		panic(&ModelPanic{Msg: "enum @panic for " + key})
	case "@error":
		return reflect.Zero(dt), &ModelError{Msg: "enum @error for " + key}
	}
	// "=<printed target value>"
	lit := act[1:]
	out := reflect.New(dt).Elem()
	switch dt.Kind() {
	case reflect.String:
		out.SetString(lit)
	case reflect.Int, reflect.Int8, reflect.Int16, reflect.Int32, reflect.Int64:
		var x int64
		fmt.Sscan(lit, &x)
		out.SetInt(x)
	case reflect.Uint, reflect.Uint8, reflect.Uint16, reflect.Uint32, reflect.Uint64, reflect.Uintptr:
		var x uint64
		fmt.Sscan(lit, &x)
		out.SetUint(x)
	case reflect.Float32, reflect.Float64:
		var x float64
		fmt.Sscan(lit, &x)
		out.SetFloat(x)
	default:
		return out, fmt.Errorf("rt: enum target kind %s", dt.Kind())
	}
	return out, nil
}

func (in *Interp) call(p *Plan, src reflect.Value, dt reflect.Type) (reflect.Value, error) {
	fn, ok := in.Funcs[p.Fn]
	if !ok {
		return reflect.Zero(dt), fmt.Errorf("rt: custom function %s not registered", p.Fn)
	}
	ft := fn.Type()
	args := make([]reflect.Value, 0, ft.NumIn())
	if len(p.Args) == 0 && ft.NumIn() == 1 && src.IsValid() {
		args = append(args, src.Convert(ft.In(0)))
	} else {
		for i, a := range p.Args {
			switch {
			case a == -1:
				args = append(args, src.Convert(ft.In(i)))
			case a == -2:
				args = append(args, in.Conv)
			default:
				args = append(args, in.CtxArgs[a])
			}
		}
	}
	outs := fn.Call(args)
	if p.Fallible && !outs[1].IsNil() {
		return reflect.Zero(dt), outs[1].Interface().(error)
	}
	return outs[0].Convert(dt), nil
}

// defaultOp interprets a method with goverter:default FUNC (K = constructor call, In = regular plan, Ref = mode).
func (in *Interp) defaultOp(p *Plan, src reflect.Value, dt reflect.Type) (reflect.Value, error) {
	fn, ok := in.Funcs[p.K.Fn]
	if !ok {
		return reflect.Zero(dt), fmt.Errorf("rt: constructor %s not registered", p.K.Fn)
	}
	base, err := in.call(p.K, src, fn.Type().Out(0))
	if err != nil {
		return reflect.Zero(dt), err
	}
	if p.Fn == "addr" {
		n := reflect.New(base.Type())
		n.Elem().Set(base)
		base = n
	}
	base = base.Convert(dt)
	switch p.Ref {
	case "nil-default":
		if src.Kind() == reflect.Ptr && src.IsNil() {
			return base, nil
		}
		return in.Eval(p.In, src, dt)
	case "ptr-update":
		if src.IsNil() {
			return base, nil
		}
		if base.IsNil() {
			panic(&ModelPanic{Msg: "constructor returned nil pointer"})
		}
		return base, in.structInto(p.In, src.Elem(), base.Elem())
	case "srcptr-update":
		b := addressable(base)
		if src.IsNil() {
			return b, nil
		}
		return b, in.structInto(p.In, src.Elem(), b)
	case "val2ptr":
		if base.IsNil() {
			panic(&ModelPanic{Msg: "constructor returned nil pointer"})
		}
		return base, in.structInto(p.In, src, base.Elem())
	case "ptr-replace", "val2ptr-replace", "srcptr-replace":
		// a custom conversion of the struct pair: its result replaces the constructor's value
		b := base
		if p.Ref == "srcptr-replace" {
			b = addressable(base)
		}
		if src.Kind() == reflect.Ptr {
			if src.IsNil() {
				return b, nil
			}
			src = src.Elem()
		}
		dst := b
		if dst.Kind() == reflect.Ptr {
			if dst.IsNil() {
				panic(&ModelPanic{Msg: "constructor returned nil pointer"})
			}
			dst = dst.Elem()
		}
		v, err := in.Eval(p.In, src, dst.Type())
		if err != nil {
			return reflect.Zero(dt), err
		}
		dst.Set(v)
		return b, nil
	case "struct":
		b := addressable(base)
		return b, in.structInto(p.In, src, b)
	}
	return reflect.Zero(dt), fmt.Errorf("rt: unknown default mode %q", p.Ref)
}
