package rt

import (
	"bufio"
	"encoding/json"
	"fmt"
	"os"
	"reflect"
	"strconv"
	"strings"
)

// Case is one generated converter method under test.
type Case struct {
	ID    string
	Fn    any            // generated method value or function
	Plan  string         // JSON PlanSet
	Mode  string         // oracle flags, comma separated: value, alias, nomutate
	Funcs map[string]any // custom functions referenced by the plan
	Conv  any            // converter instance (for custom functions taking the converter)
	// SrcIdx is the parameter index of the source; CtxIdx lists the parameter indices of the context arguments in
	// the order of the method's context list (Plan.Args refer to positions in this list).
	SrcIdx int
	CtxIdx []int
	// Update: parameter index of the update target (-1/0 = none; only used when Mode contains "update")
	TgtIdx int
}

var cases []Case

func Register(c Case) { cases = append(cases, c) }

// Fail is one failing (case, value).
type Fail struct {
	Kind   string `json:"kind"`
	Value  string `json:"value"`
	Got    string `json:"got,omitempty"`
	Want   string `json:"want,omitempty"`
	Detail string `json:"detail,omitempty"`
}

type CaseResult struct {
	ID     string         `json:"id"`
	Values int            `json:"values"`
	Calls  int            `json:"calls"`
	Fails  []Fail         `json:"fails,omitempty"`
	NFail  int            `json:"nfail"`
	Seen   map[string]int `json:"seen,omitempty"` // outcome classes
}

var errType = reflect.TypeOf((*error)(nil)).Elem()

// Main runs every registered case and prints one JSON line per case.
func Main() {
	k := 1
	if s := os.Getenv("VERIF_RT_K"); s != "" {
		k, _ = strconv.Atoi(s)
	}
	w := bufio.NewWriter(os.Stdout)
	defer w.Flush()
	after := os.Getenv("VERIF_RT_AFTER")
	skipping := after != ""
	for _, c := range cases {
		if skipping {
			if c.ID == after {
				skipping = false
			}
			continue
		}
		fmt.Fprintf(os.Stderr, "\x01B %s\n", c.ID)
		r := runCase(c, k)
		b, _ := json.Marshal(r)
		w.Write(b)
		w.WriteByte('\n')
		w.Flush()
	}
}

type callResult struct {
	out      reflect.Value
	err      error
	panicked bool
	pval     any
}

func safeCall(fn reflect.Value, args []reflect.Value) (r callResult) {
	defer func() {
		if p := recover(); p != nil {
			r.panicked = true
			r.pval = p
		}
	}()
	outs := fn.Call(args)
	if len(outs) > 0 {
		r.out = outs[0]
	}
	if len(outs) == 2 && !outs[1].IsNil() {
		r.err = outs[1].Interface().(error)
	}
	return r
}

func (in *Interp) safeEval(p *Plan, src reflect.Value, dt reflect.Type) (r callResult) {
	defer func() {
		if pv := recover(); pv != nil {
			r.panicked = true
			r.pval = pv
		}
	}()
	in.depth = 0
	in.NonInjective = false
	in.Ambiguous = false
	r.out, r.err = in.Eval(p, src, dt)
	return r
}

func runCase(c Case, k int) CaseResult {
	res := CaseResult{ID: c.ID, Seen: map[string]int{}}
	var ps PlanSet
	if err := json.Unmarshal([]byte(c.Plan), &ps); err != nil {
		res.Fails = append(res.Fails, Fail{Kind: "harness", Detail: "bad plan: " + err.Error()})
		res.NFail++
		return res
	}
	in := &Interp{Set: &ps, Funcs: map[string]reflect.Value{}}
	for n, f := range c.Funcs {
		in.Funcs[n] = reflect.ValueOf(f)
	}
	if c.Conv != nil {
		in.Conv = reflect.ValueOf(c.Conv)
	}
	fn := reflect.ValueOf(c.Fn)
	ft := fn.Type()
	if fn.Kind() == reflect.Func && fn.IsNil() {
		res.Fails = append(res.Fails, Fail{Kind: "nil-func-variable", Detail: "the goverter:variables function variable was not assigned by the generated init()"})
		res.NFail++
		return res
	}
	modes := map[string]bool{}
	for _, m := range strings.Split(c.Mode, ",") {
		modes[m] = true
	}
	if modes["update"] {
		return runUpdateCase(c, in, &ps, fn, k, modes)
	}
	if ft.NumIn() != 1+len(c.CtxIdx) || ft.NumOut() < 1 || c.SrcIdx >= ft.NumIn() {
		res.Fails = append(res.Fails, Fail{Kind: "harness", Detail: "unsupported signature " + ft.String()})
		res.NFail++
		return res
	}
	st, dt := ft.In(c.SrcIdx), ft.Out(0)
	ctxVals := make([]reflect.Value, len(c.CtxIdx))
	for i, pi := range c.CtxIdx {
		ctxVals[i] = ctxValue(ft.In(pi), i)
	}
	in.CtxArgs = ctxVals
	mkArgs := func(v reflect.Value) []reflect.Value {
		args := make([]reflect.Value, ft.NumIn())
		args[c.SrcIdx] = v
		for i, pi := range c.CtxIdx {
			args[pi] = ctxVals[i]
		}
		return args
	}
	vals := Enum(st, k)
	vals = append(vals, ShareVariants(st, vals[0])...)
	res.Values = len(vals)
	fail := func(f Fail) {
		res.NFail++
		if len(res.Fails) < 3 {
			res.Fails = append(res.Fails, f)
		}
	}
	for _, v := range vals {
		shown := Show(v)
		before := Clone(v)
		modelIn := Clone(v)
		g := safeCall(fn, mkArgs(v))
		res.Calls++
		m := in.safeEval(ps.Root, modelIn, dt)
		if _, isModelPanic := m.pval.(*ModelPanic); m.panicked && !isModelPanic {
			fail(Fail{Kind: "harness", Value: shown, Detail: fmt.Sprintf("model interpreter panicked: %v", m.pval)})
			continue
		}
		if in.Ambiguous && (g.panicked || g.err != nil) {
			res.Seen["error-or-panic-by-map-order"]++
			continue
		}
		switch {
		case g.panicked && !m.panicked:
			res.Seen["panic"]++
			fail(Fail{Kind: "panic", Value: shown, Got: fmt.Sprint(g.pval)})
			continue
		case !g.panicked && m.panicked:
			fail(Fail{Kind: "missing-panic", Value: shown, Want: "panic"})
			continue
		case g.panicked && m.panicked:
			res.Seen["expected-panic"]++
			continue
		}
		if (g.err != nil) != (m.err != nil) {
			fail(Fail{Kind: "error-mismatch", Value: shown, Got: fmt.Sprint(g.err), Want: fmt.Sprint(m.err)})
			continue
		}
		if g.err != nil {
			res.Seen["error"]++
			if d := in.checkErr(&ps, v, g.err, modes); d != "" {
				fail(Fail{Kind: "error-path", Value: shown, Got: fmt.Sprint(g.err), Detail: d})
			}
			continue
		}
		res.Seen["ok"]++
		if in.NonInjective {
			res.Seen["noninjective-keys-skipped"]++
		}
		if modes["value"] && !in.NonInjective {
			d := Equal(g.out, m.out)
			if d != "" && modes["nilkeeps"] {
				// second acceptable result: nil pointer/slice/map sources leave the constructor's value untouched
				in.NilKeeps = true
				m2 := in.safeEval(ps.Root, Clone(before), dt)
				in.NilKeeps = false
				if !m2.panicked && m2.err == nil {
					d = eqEither(g.out, m.out, m2.out, "")
				}
			}
			if d != "" {
				fail(Fail{Kind: "value", Value: shown, Got: Show(g.out), Want: Show(m.out), Detail: d})
			}
		}
		if modes["nomutate"] {
			if d := Equal(v, before); d != "" {
				fail(Fail{Kind: "source-mutated", Value: shown, Got: Show(v), Detail: d})
			}
		}
		if modes["alias"] {
			allowed := in.SharedAllowed(ps.Root, v)
			if d := Overlap(Regions(v, "source"), Regions(g.out, "result"), allowed); d != "" {
				fail(Fail{Kind: "alias", Value: shown, Got: Show(g.out), Detail: d})
			} else if len(allowed) > 0 {
				res.Seen["sharing-allowed"]++
			}
			// mutation probing: overwrite every mutable cell of the result; source must keep its snapshot
			if len(allowed) == 0 {
				Scribble(g.out)
				if d := Equal(v, before); d != "" {
					fail(Fail{Kind: "alias-mutation", Value: shown, Detail: "mutating the result changed the source: " + d})
				}
			}
		}
	}
	return res
}

// ctxValue is the fixed, recognisable value passed for the i-th context argument.
func ctxValue(t reflect.Type, i int) reflect.Value {
	switch t.Kind() {
	case reflect.Int, reflect.Int8, reflect.Int16, reflect.Int32, reflect.Int64:
		return reflect.ValueOf(3 + i).Convert(t)
	case reflect.String:
		return reflect.ValueOf(strings.Repeat("c", 2+i)).Convert(t)
	}
	g := &valueGen{}
	return g.def(t, 0)
}
