// Package rt is the dependency-free runtime half of the verification harness. It is
// imported both by the checker (which builds Plans) and by generated scratch programs
// (which interpret Plans with reflect and compare with goverter's generated code).
package rt

// Plan is the reference model of one conversion position.
type Plan struct {
	Op string `json:"op"`
	// copy      basic value, converted to the target's (named) type
	// ptr       *S → *T: nil ↦ nil, else fresh pointer to In
	// val2ptr   S → *T: fresh pointer to In, never nil
	// ptr2val   *S → T: nil ↦ zero, else In of pointee
	// slice     nil ↦ nil, else same length, element-wise In
	// arr2slice array source: length N, element-wise In, never nil
	// map       nil ↦ nil, else entry-wise K / V
	// struct    Fields in target order
	// enum      Enum
	// custom    call registered function Fn
	// share     target = source (skipCopySameType)
	// ref       Defs[Ref] of the enclosing PlanSet (named/recursive positions)
	// cast      convert In result to target type (useUnderlyingTypeMethods wrappers)
	In     *Plan       `json:"in,omitempty"`
	K      *Plan       `json:"k,omitempty"`
	V      *Plan       `json:"v,omitempty"`
	Fields []FieldPlan `json:"fields,omitempty"`
	Ref    string      `json:"ref,omitempty"`
	Enum   *EnumPlan   `json:"enum,omitempty"`
	Fn     string      `json:"fn,omitempty"`
	// CastVia: for custom on underlying types: convert source to this registered type name first
	CastSrc string `json:"castSrc,omitempty"`
	// Ctx: indices of top-level context arguments passed to Fn, in Fn's parameter order (-1 = source, -2 = converter)
	Args []int `json:"args,omitempty"`
	// Fallible: Fn returns (T, error)
	Fallible bool `json:"fallible,omitempty"`
}

// FieldPlan describes how one target field is produced.
type FieldPlan struct {
	Target string   `json:"t"`
	Ignore bool     `json:"ignore,omitempty"` // left untouched
	Whole  bool     `json:"whole,omitempty"`  // goverter:map . Field
	Path   []string `json:"path,omitempty"`   // source field path; a nil pointer on the way yields nil
	Method bool     `json:"method,omitempty"` // last segment is an argument-less method
	MErr   bool     `json:"merr,omitempty"`   // that method returns an error as 2nd result
	Plan   *Plan    `json:"plan,omitempty"`   // conversion from the selected source expression to the field
	// ZeroGuard: (update) skip assignment when the selected source value is the zero value
	ZeroGuard bool `json:"zg,omitempty"`
	// PtrLift: the path crossed a pointer, so the source expression is *Leaf (nil if any pointer on the way is nil)
	PtrLift bool `json:"lift,omitempty"`
	// NoSource: map|FUNC where FUNC takes no source
	NoSource bool `json:"nosrc,omitempty"`
	// AddrOf: map . F | FUNC where FUNC takes a pointer to the source struct of a pointer method: the original pointer is passed
	AddrOf bool `json:"addr,omitempty"`
}

// EnumPlan maps source member values (printed with %v) to target member values or actions.
type EnumPlan struct {
	// Cases: printed source value → action. Action is "=<printed target value>", "@error", "@panic", "@ignore".
	Cases   map[string]string `json:"cases"`
	Unknown string            `json:"unknown"`
}

// PlanSet is a Plan with named sub-plans (for recursion through named types).
type PlanSet struct {
	Root *Plan            `json:"root"`
	Defs map[string]*Plan `json:"defs,omitempty"`
}
