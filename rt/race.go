package rt

import (
	"fmt"
	"os"
	"reflect"
	"sync"
)

// RaceMain runs every registered case free-running: 16 goroutines call the generated function concurrently on one
// shared source value, a few hundred times. Built with -race this is the separate unsynchronised-access detector.
func RaceMain() {
	for _, c := range schedCases {
		fmt.Fprintf(os.Stderr, "\x01B %s\n", c.ID)
		fn := reflect.ValueOf(c.Fn)
		st := fn.Type().In(0)
		vals := Enum(st, 0)
		vals = append(vals, ShareVariants(st, vals[0])...)
		if len(vals) > 3 {
			vals = vals[:3]
		}
		for _, v := range vals {
			if r := safeCall(fn, []reflect.Value{v}); r.panicked {
				continue
			}
			arg := v.Interface()
			var wg sync.WaitGroup
			start := make(chan struct{})
			for g := 0; g < 16; g++ {
				wg.Add(1)
				go func() {
					defer wg.Done()
					defer func() { recover() }()
					<-start
					for i := 0; i < 40; i++ {
						fn.Call([]reflect.Value{reflect.ValueOf(arg)})
					}
				}()
			}
			close(start)
			wg.Wait()
		}
	}
}
