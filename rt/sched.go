package rt

import (
	"bufio"
	"crypto/sha1"
	"encoding/hex"
	"encoding/json"
	"fmt"
	"os"
	"reflect"
	"strconv"

	"verifrt/vs"
)

// SchedCase is one generated method explored under the controlled scheduler.
type SchedCase struct {
	ID string
	Fn any
}

var schedCases []SchedCase

func RegisterSched(c SchedCase) { schedCases = append(schedCases, c) }

type SchedResult struct {
	ID           string   `json:"id"`
	Values       int      `json:"values"`
	Executions   int      `json:"executions"`
	MaxDecisions int      `json:"max_decisions"`
	MaxSteps     int      `json:"max_steps"`
	Outcomes     int      `json:"outcomes"` // distinct observed result vectors
	Problems     []string `json:"problems,omitempty"`
	Capped       bool     `json:"capped,omitempty"`
}

// SchedMain explores, for every case and a few shared source values, all interleavings of `threads` concurrent calls
// with at most `bound` preemptions.
func SchedMain() {
	threads, _ := strconv.Atoi(os.Getenv("VERIF_SCHED_THREADS"))
	if threads < 2 {
		threads = 2
	}
	bound, _ := strconv.Atoi(os.Getenv("VERIF_SCHED_BOUND"))
	maxExec := 30000
	w := bufio.NewWriter(os.Stdout)
	defer w.Flush()
	for _, c := range schedCases {
		fmt.Fprintf(os.Stderr, "\x01B %s\n", c.ID)
		res := SchedResult{ID: c.ID}
		fn := reflect.ValueOf(c.Fn)
		st := fn.Type().In(0)
		vals := Enum(st, 0)
		vals = append(vals, ShareVariants(st, vals[0])...)
		if len(vals) > 3 {
			vals = vals[:3]
		}
		res.Values = len(vals)
		outcomes := map[string]bool{}
		for _, v := range vals {
			snapshot := Clone(v)
			seq := safeCall(fn, []reflect.Value{v})
			if seq.panicked {
				continue // a sequential panic is C02's business
			}
			var shared []vs.Region
			for _, r := range Regions(v, "source") {
				shared = append(shared, vs.Region{Lo: r.Lo, Hi: r.Hi, MapID: r.MapID, What: r.What})
			}
			problem := func(s string) {
				if len(res.Problems) < 3 {
					res.Problems = append(res.Problems, s+" (input "+Show(v)+")")
				}
			}
			var explore func(prefix []int)
			explore = func(prefix []int) {
				if res.Executions >= maxExec {
					res.Capped = true
					return
				}
				results := make([]callResult, threads)
				bodies := make([]func(), threads)
				for i := range bodies {
					i := i
					bodies[i] = func() { results[i] = safeCall(fn, []reflect.Value{v}) }
				}
				s := vs.Run(prefix, shared, bodies)
				res.Executions++
				if s.ReplayErr != "" {
					problem("replay divergence: " + s.ReplayErr)
					return
				}
				if len(s.Decisions) > res.MaxDecisions {
					res.MaxDecisions = len(s.Decisions)
				}
				if s.Steps > res.MaxSteps {
					res.MaxSteps = s.Steps
				}
				h := sha1.New()
				for i, r := range results {
					if r.panicked {
						problem(fmt.Sprintf("thread %d panicked under schedule %v: %v", i, prefix, r.pval))
						continue
					}
					if d := Equal(r.out, seq.out); d != "" {
						problem(fmt.Sprintf("thread %d result differs from the sequential result under schedule %v: %s", i, prefix, d))
					}
					fmt.Fprint(h, Show(r.out), r.err != nil)
				}
				outcomes[hex.EncodeToString(h.Sum(nil)[:6])] = true
				for _, wv := range s.Writes {
					problem(fmt.Sprintf("schedule %v: %s", prefix, wv))
				}
				if d := Equal(v, snapshot); d != "" {
					problem(fmt.Sprintf("source changed under schedule %v: %s", prefix, d))
				}
				pre := 0
				for i, d := range s.Decisions {
					if i < len(prefix) {
						if d.Running && d.Chosen > 0 {
							pre++
						}
						continue
					}
					for alt := 1; alt < len(d.Enabled); alt++ {
						cost := pre
						if d.Running {
							cost++
						}
						if cost > bound {
							continue
						}
						np := make([]int, i+1)
						copy(np, prefix)
						np[i] = alt
						explore(np)
					}
				}
			}
			// the same (empty) schedule is replayed twice and must give identical decisions before anything is trusted
			a := vs.Run(nil, shared, []func(){func() { safeCall(fn, []reflect.Value{v}) }, func() { safeCall(fn, []reflect.Value{v}) }})
			b := vs.Run(nil, shared, []func(){func() { safeCall(fn, []reflect.Value{v}) }, func() { safeCall(fn, []reflect.Value{v}) }})
			if len(a.Decisions) != len(b.Decisions) || a.Steps != b.Steps {
				problem("replaying the default schedule twice gives different executions")
				continue
			}
			explore(nil)
		}
		res.Outcomes = len(outcomes)
		j, _ := json.Marshal(res)
		w.Write(j)
		w.WriteByte('\n')
		w.Flush()
	}
}
