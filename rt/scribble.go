package rt

import "reflect"

// ShareVariants returns variants of the default value with internal sharing: the first two pointer
// (resp. slice, map) positions of identical type are made to reference the same memory.
func ShareVariants(t reflect.Type, def reflect.Value) []reflect.Value {
	var out []reflect.Value
	for _, kind := range []reflect.Kind{reflect.Ptr, reflect.Slice, reflect.Map} {
		v := Clone(def)
		if !v.CanAddr() {
			v = addressable(v)
		}
		var first reflect.Value
		done := false
		// path holds the identities of the pointers/maps/slices we are currently below: sharing with an
		// ancestor would create a cyclic value, which is outside the property (finite acyclic values)
		var path []uintptr
		onPath := func(p uintptr) bool {
			for _, q := range path {
				if q == p {
					return true
				}
			}
			return false
		}
		var walk func(x reflect.Value, d int)
		walk = func(x reflect.Value, d int) {
			if done || !x.IsValid() || d > 8 {
				return
			}
			x = rw(x)
			if x.Kind() == kind && !x.IsNil() && x.CanSet() {
				if !first.IsValid() {
					first = x
				} else if first.Type() == x.Type() && !onPath(first.Pointer()) && first.Pointer() != x.Pointer() {
					x.Set(first)
					done = true
					return
				}
			}
			switch x.Kind() {
			case reflect.Ptr:
				if !x.IsNil() {
					path = append(path, x.Pointer())
					walk(x.Elem(), d+1)
					path = path[:len(path)-1]
				}
			case reflect.Slice, reflect.Array:
				if x.Kind() == reflect.Slice && x.IsNil() {
					return
				}
				if x.Kind() == reflect.Slice {
					path = append(path, x.Pointer())
				}
				for i := 0; i < x.Len(); i++ {
					walk(x.Index(i), d+1)
				}
				if x.Kind() == reflect.Slice {
					path = path[:len(path)-1]
				}
			case reflect.Struct:
				for i := 0; i < x.NumField(); i++ {
					walk(x.Field(i), d+1)
				}
			}
		}
		walk(v, 0)
		if done {
			out = append(out, v)
		}
	}
	// sub-slices of one backing array: [a b] and its tail share memory
	return out
}

// Scribble overwrites every mutable cell reachable from v (through pointers, slices and maps) with a
// different value, without touching v's own top-level storage identity.
func Scribble(v reflect.Value) {
	scribble(v, map[visit]bool{}, 0)
}

func scribble(v reflect.Value, seen map[visit]bool, d int) {
	if !v.IsValid() || d > 60 {
		return
	}
	v = rw(v)
	switch v.Kind() {
	case reflect.Ptr:
		if v.IsNil() {
			return
		}
		k := visit{a: v.UnsafePointer(), t: v.Type()}
		if seen[k] {
			return
		}
		seen[k] = true
		scribble(v.Elem(), seen, d+1)
		bump(v.Elem())
	case reflect.Slice:
		if v.IsNil() {
			return
		}
		for i := 0; i < v.Len(); i++ {
			scribble(v.Index(i), seen, d+1)
			bump(v.Index(i))
		}
	case reflect.Array:
		for i := 0; i < v.Len(); i++ {
			scribble(v.Index(i), seen, d+1)
		}
	case reflect.Map:
		if v.IsNil() {
			return
		}
		k := visit{a: v.UnsafePointer(), t: v.Type()}
		if seen[k] {
			return
		}
		seen[k] = true
		it := v.MapRange()
		var keys []reflect.Value
		for it.Next() {
			scribble(it.Value(), seen, d+1)
			keys = append(keys, it.Key())
		}
		for _, kk := range keys {
			v.SetMapIndex(kk, reflect.Value{})
		}
	case reflect.Struct:
		if !v.CanAddr() {
			return
		}
		for i := 0; i < v.NumField(); i++ {
			scribble(rw(v.Field(i)), seen, d+1)
		}
	case reflect.Interface:
		if !v.IsNil() {
			scribble(v.Elem(), seen, d+1)
		}
	}
}

// bump changes a settable basic cell (or zeroes a composite one).
func bump(v reflect.Value) {
	v = rw(v)
	if !v.CanSet() {
		return
	}
	switch v.Kind() {
	case reflect.Int, reflect.Int8, reflect.Int16, reflect.Int32, reflect.Int64:
		v.SetInt(v.Int() ^ 0x55)
	case reflect.Uint, reflect.Uint8, reflect.Uint16, reflect.Uint32, reflect.Uint64, reflect.Uintptr:
		v.SetUint(v.Uint() ^ 0x55)
	case reflect.String:
		v.SetString(v.String() + "~")
	case reflect.Bool:
		v.SetBool(!v.Bool())
	case reflect.Float32, reflect.Float64:
		v.SetFloat(v.Float() + 17)
	case reflect.Struct:
		for i := 0; i < v.NumField(); i++ {
			bump(v.Field(i))
		}
	default:
		v.Set(reflect.Zero(v.Type()))
	}
}
