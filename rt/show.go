package rt

import (
	"fmt"
	"reflect"
	"sort"
	"strings"
)

// Show prints a value deeply (following pointers, distinguishing nil and empty containers).
func Show(v reflect.Value) string {
	var b strings.Builder
	show(&b, v, 0)
	return b.String()
}

func show(b *strings.Builder, v reflect.Value, d int) {
	if !v.IsValid() {
		b.WriteString("<invalid>")
		return
	}
	if d > 12 {
		b.WriteString("…")
		return
	}
	v = rw(v)
	switch v.Kind() {
	case reflect.Ptr:
		if v.IsNil() {
			b.WriteString("nil")
			return
		}
		b.WriteString("&")
		show(b, v.Elem(), d+1)
	case reflect.Slice:
		if v.IsNil() {
			b.WriteString("nil[]")
			return
		}
		fallthrough
	case reflect.Array:
		b.WriteString("[")
		for i := 0; i < v.Len(); i++ {
			if i > 0 {
				b.WriteString(" ")
			}
			show(b, v.Index(i), d+1)
		}
		b.WriteString("]")
	case reflect.Map:
		if v.IsNil() {
			b.WriteString("nilmap")
			return
		}
		var parts []string
		it := v.MapRange()
		for it.Next() {
			var kb, vb strings.Builder
			show(&kb, it.Key(), d+1)
			show(&vb, it.Value(), d+1)
			parts = append(parts, kb.String()+":"+vb.String())
		}
		sort.Strings(parts)
		b.WriteString("map{" + strings.Join(parts, " ") + "}")
	case reflect.Struct:
		if !v.CanAddr() {
			v = addressable(v)
		}
		b.WriteString("{")
		for i := 0; i < v.NumField(); i++ {
			if i > 0 {
				b.WriteString(" ")
			}
			b.WriteString(v.Type().Field(i).Name + ":")
			show(b, rw(v.Field(i)), d+1)
		}
		b.WriteString("}")
	case reflect.Interface:
		if v.IsNil() {
			b.WriteString("nil-iface")
			return
		}
		b.WriteString("iface(")
		show(b, v.Elem(), d+1)
		b.WriteString(")")
	case reflect.Func, reflect.Chan, reflect.UnsafePointer:
		if v.Pointer() == 0 {
			b.WriteString("nil-" + v.Kind().String())
		} else {
			b.WriteString(v.Kind().String())
		}
	case reflect.String:
		fmt.Fprintf(b, "%q", v.String())
	default:
		fmt.Fprintf(b, "%v", v.Interface())
	}
}
