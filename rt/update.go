package rt

import (
	"fmt"
	"reflect"
)

// runUpdateCase checks goverter:update methods: fn(source, target *T, ctx...) [error].
// Plan root: {op:"update", in: <struct plan>}; a pointer source that is nil leaves the target untouched.
func runUpdateCase(c Case, in *Interp, ps *PlanSet, fn reflect.Value, k int, modes map[string]bool) CaseResult {
	res := CaseResult{ID: c.ID, Seen: map[string]int{}}
	ft := fn.Type()
	fail := func(f Fail) {
		res.NFail++
		if len(res.Fails) < 3 {
			res.Fails = append(res.Fails, f)
		}
	}
	if ps.Root == nil || ps.Root.Op != "update" || c.TgtIdx >= ft.NumIn() || ft.In(c.TgtIdx).Kind() != reflect.Ptr {
		fail(Fail{Kind: "harness", Detail: "bad update case " + ft.String()})
		return res
	}
	if ft.NumOut() > 1 || (ft.NumOut() == 1 && ft.Out(0) != errType) {
		fail(Fail{Kind: "update-signature", Detail: "update method returns something other than an optional error: " + ft.String()})
		return res
	}
	st, tt := ft.In(c.SrcIdx), ft.In(c.TgtIdx)
	ctxVals := make([]reflect.Value, len(c.CtxIdx))
	for i, pi := range c.CtxIdx {
		ctxVals[i] = ctxValue(ft.In(pi), i)
	}
	in.CtxArgs = ctxVals
	srcs := Enum(st, k)
	pres := Enum(tt.Elem(), 1)
	res.Values = len(srcs) * len(pres)
	for _, sv := range srcs {
		for _, pre := range pres {
			shown := "source=" + Show(sv) + " target-before=" + Show(pre)
			srcBefore := Clone(sv)
			modelSrc := Clone(sv)
			tgt := reflect.New(tt.Elem())
			tgt.Elem().Set(Clone(pre))
			bystander := Clone(pre)
			args := make([]reflect.Value, ft.NumIn())
			args[c.SrcIdx] = sv
			args[c.TgtIdx] = tgt
			for i, pi := range c.CtxIdx {
				args[pi] = ctxVals[i]
			}
			g := safeCall2(fn, args)
			res.Calls++
			// model: two acceptable targets (nil nillable sources assigned / left untouched)
			var merr error
			mpanic := false
			eval := func(nilKeeps bool) reflect.Value {
				want := reflect.New(tt.Elem())
				want.Elem().Set(Clone(pre))
				func() {
					defer func() {
						if r := recover(); r != nil {
							if _, ok := r.(*ModelPanic); !ok {
								panic(r)
							}
							mpanic = true
						}
					}()
					s := Clone(modelSrc)
					if s.Kind() == reflect.Ptr {
						if s.IsNil() {
							return
						}
						s = s.Elem()
					}
					in.depth = 0
					in.NilKeeps = nilKeeps
					merr = in.structInto(ps.Root.In, s, want.Elem())
					in.NilKeeps = false
				}()
				return want
			}
			want := eval(false)
			want2 := eval(true)
			switch {
			case g.panicked && !mpanic:
				res.Seen["panic"]++
				fail(Fail{Kind: "panic", Value: shown, Got: fmt.Sprint(g.pval)})
				continue
			case g.panicked:
				res.Seen["expected-panic"]++
				continue
			}
			if (g.err != nil) != (merr != nil) {
				fail(Fail{Kind: "error-mismatch", Value: shown, Got: fmt.Sprint(g.err), Want: fmt.Sprint(merr)})
				continue
			}
			if g.err != nil {
				res.Seen["error"]++
				continue
			}
			res.Seen["ok"]++
			if d := eqEither(tgt.Elem(), want.Elem(), want2.Elem(), ""); d != "" {
				fail(Fail{Kind: "update-value", Value: shown, Got: Show(tgt.Elem()), Want: Show(want.Elem()) + " (or, for nil pointer/slice/map sources, unchanged: " + Show(want2.Elem()) + ")", Detail: d})
			}
			if d := Equal(sv, srcBefore); d != "" {
				fail(Fail{Kind: "source-mutated", Value: shown, Detail: d})
			}
			if d := Equal(bystander, pre); d != "" {
				fail(Fail{Kind: "bystander-mutated", Value: shown, Detail: d})
			}
		}
	}
	return res
}

// safeCall2 is safeCall for functions whose only result (if any) is an error.
func safeCall2(fn reflect.Value, args []reflect.Value) (r callResult) {
	defer func() {
		if p := recover(); p != nil {
			r.panicked = true
			r.pval = p
		}
	}()
	outs := fn.Call(args)
	if len(outs) == 1 && !outs[0].IsNil() {
		r.err, _ = outs[0].Interface().(error)
	}
	return r
}

// eqEither compares got field-wise with two acceptable values.
func eqEither(got, a, b reflect.Value, path string) string {
	if got.Kind() == reflect.Ptr && a.Kind() == reflect.Ptr && b.Kind() == reflect.Ptr && !got.IsNil() && !a.IsNil() && !b.IsNil() {
		return eqEither(got.Elem(), a.Elem(), b.Elem(), path+".*")
	}
	if got.Kind() == reflect.Struct {
		if !got.CanAddr() {
			got = addressable(got)
		}
		if !a.CanAddr() {
			a = addressable(a)
		}
		if !b.CanAddr() {
			b = addressable(b)
		}
		for i := 0; i < got.NumField(); i++ {
			if d := eqEither(rw(got.Field(i)), rw(a.Field(i)), rw(b.Field(i)), path+"."+got.Type().Field(i).Name); d != "" {
				return d
			}
		}
		return ""
	}
	d := Equal(got, a)
	if d == "" || Equal(got, b) == "" {
		return ""
	}
	return path + d
}
