package rt

import (
	"errors"
	"math"
	"reflect"
	"unsafe"
)

// CV is a value together with its deviation cost (number of non-default choices inside it).
type CV struct {
	V    reflect.Value
	Cost int
}

var (
	errSentinel = errors.New("rt-sentinel")
	someFunc    = func() {}
)

// leafDomain returns the value domain of a non-composite type; index 1 (if present) is the default.
func leafDomain(t reflect.Type) []reflect.Value {
	mk := func(xs ...any) []reflect.Value {
		var out []reflect.Value
		for _, x := range xs {
			out = append(out, reflect.ValueOf(x).Convert(t))
		}
		return out
	}
	switch t.Kind() {
	case reflect.Bool:
		return mk(false, true)
	case reflect.Int:
		return mk(0, 1, 2, 3, -1, math.MaxInt, math.MinInt)
	case reflect.Int8:
		return mk(int8(0), int8(1), int8(2), int8(3), int8(-1), int8(math.MaxInt8))
	case reflect.Int16:
		return mk(int16(0), int16(1), int16(2), int16(3), int16(-1), int16(math.MaxInt16))
	case reflect.Int32:
		return mk(int32(0), int32(1), int32(2), int32(3), int32(-1), int32(math.MaxInt32))
	case reflect.Int64:
		return mk(int64(0), int64(1), int64(2), int64(3), int64(-1), int64(math.MaxInt64), int64(1<<53+1), int64(1<<53))
	case reflect.Uint:
		return mk(uint(0), uint(1), uint(2), uint(3), uint(math.MaxUint))
	case reflect.Uint8:
		return mk(uint8(0), uint8(1), uint8(2), uint8(3), uint8(255))
	case reflect.Uint16:
		return mk(uint16(0), uint16(1), uint16(2), uint16(3), uint16(math.MaxUint16))
	case reflect.Uint32:
		return mk(uint32(0), uint32(1), uint32(2), uint32(3), uint32(math.MaxUint32))
	case reflect.Uint64:
		return mk(uint64(0), uint64(1), uint64(2), uint64(3), uint64(math.MaxUint64), uint64(math.MaxUint64-1))
	case reflect.Uintptr:
		return mk(uintptr(0), uintptr(1), uintptr(2))
	case reflect.Float32:
		return mk(float32(0), float32(1), float32(2), float32(1.5), float32(-2.25))
	case reflect.Float64:
		return mk(0.0, 1.0, 2.0, 1.5, -2.25, math.MaxFloat64)
	case reflect.Complex64:
		return mk(complex64(0), complex64(complex(1, 2)))
	case reflect.Complex128:
		return mk(complex128(0), complex(1, 2))
	case reflect.String:
		return mk("", "a", "b", "zz")
	case reflect.UnsafePointer:
		x := 5
		return []reflect.Value{reflect.Zero(t), reflect.ValueOf(unsafe.Pointer(&x)).Convert(t)}
	case reflect.Interface:
		z := reflect.Zero(t)
		var alts []reflect.Value
		alts = append(alts, z)
		for _, c := range []any{5, "x", errSentinel} {
			cv := reflect.ValueOf(c)
			if cv.Type().Implements(t) {
				v := reflect.New(t).Elem()
				v.Set(cv)
				alts = append(alts, v)
			}
		}
		return alts
	case reflect.Func:
		z := reflect.Zero(t)
		f := reflect.MakeFunc(t, func(args []reflect.Value) []reflect.Value {
			out := make([]reflect.Value, t.NumOut())
			for i := range out {
				out[i] = reflect.Zero(t.Out(i))
			}
			return out
		})
		return []reflect.Value{z, f}
	case reflect.Chan:
		return []reflect.Value{reflect.Zero(t), reflect.MakeChan(reflect.ChanOf(reflect.BothDir, t.Elem()), 1).Convert(t)}
	}
	return []reflect.Value{reflect.Zero(t)}
}

type valueGen struct {
	depth int // recursion guard for recursive types
}

// Enum returns all values of type t with at most k deviations from the type's default value.
// The zero value of t is always included.
func Enum(t reflect.Type, k int) []reflect.Value {
	g := &valueGen{}
	cvs := g.enum(t, k, 0)
	out := make([]reflect.Value, 0, len(cvs)+1)
	hasZero := false
	for _, c := range cvs {
		if c.V.IsZero() {
			hasZero = true
		}
		out = append(out, c.V)
	}
	if !hasZero {
		out = append(out, reflect.Zero(t))
	}
	return out
}

const maxTypeDepth = 4

func (g *valueGen) def(t reflect.Type, d int) reflect.Value {
	return g.enum(t, 0, d)[0].V
}

// enum: element 0 is the default value (cost 0).
func (g *valueGen) enum(t reflect.Type, k, d int) []CV {
	switch t.Kind() {
	case reflect.Ptr:
		if d >= maxTypeDepth {
			return []CV{{reflect.Zero(t), 0}}
		}
		var out []CV
		for _, e := range g.enum(t.Elem(), k, d+1) {
			p := reflect.New(t.Elem())
			p.Elem().Set(e.V)
			out = append(out, CV{p.Convert(t), e.Cost})
		}
		if k >= 1 {
			out = append(out, CV{reflect.Zero(t), 1})
		}
		return out
	case reflect.Slice:
		if d >= maxTypeDepth {
			return []CV{{reflect.Zero(t), 0}}
		}
		var out []CV
		elems := g.enum(t.Elem(), k, d+1)
		for _, e := range elems {
			s := reflect.MakeSlice(t, 1, 1)
			s.Index(0).Set(e.V)
			out = append(out, CV{s, e.Cost})
		}
		if k >= 1 {
			// nil, empty, and empty with spare capacity (shares a backing array without sharing an element)
			out = append(out, CV{reflect.Zero(t), 1}, CV{reflect.MakeSlice(t, 0, 0), 1}, CV{reflect.MakeSlice(t, 0, 2), 1})
			// two elements: [alt, default] for every alt of cost ≤ k-1, plus [default, default]
			for _, e := range g.enum(t.Elem(), k-1, d+1) {
				s := reflect.MakeSlice(t, 2, 3)
				s.Index(0).Set(e.V)
				s.Index(1).Set(g.def(t.Elem(), d+1))
				out = append(out, CV{s, e.Cost + 1})
			}
		}
		return out
	case reflect.Array:
		var out []CV
		n := t.Len()
		if n == 0 {
			return []CV{{reflect.Zero(t), 0}}
		}
		// deviations in element 0 and, separately, in the last element
		for pos := 0; pos < n; pos += max(1, n-1) {
			for i, e := range g.enum(t.Elem(), k, d+1) {
				if pos > 0 && i == 0 {
					continue
				}
				a := reflect.New(t).Elem()
				for j := 0; j < n; j++ {
					a.Index(j).Set(g.def(t.Elem(), d+1))
				}
				a.Index(pos).Set(e.V)
				out = append(out, CV{a, e.Cost})
			}
		}
		return out
	case reflect.Map:
		if d >= maxTypeDepth {
			return []CV{{reflect.Zero(t), 0}}
		}
		var out []CV
		keys := g.enum(t.Key(), 1, d+1)
		k0 := keys[0].V
		for _, e := range g.enum(t.Elem(), k, d+1) {
			m := reflect.MakeMapWithSize(t, 1)
			m.SetMapIndex(k0, e.V)
			out = append(out, CV{m, e.Cost})
		}
		if k >= 1 {
			out = append(out, CV{reflect.Zero(t), 1}, CV{reflect.MakeMap(t), 1})
			// every alternative key once, and one two-entry map
			for _, kk := range keys[1:] {
				m := reflect.MakeMapWithSize(t, 1)
				m.SetMapIndex(kk.V, g.def(t.Elem(), d+1))
				out = append(out, CV{m, 1})
			}
			if len(keys) > 1 {
				m := reflect.MakeMapWithSize(t, 2)
				m.SetMapIndex(k0, g.def(t.Elem(), d+1))
				alts := g.enum(t.Elem(), 1, d+1)
				m.SetMapIndex(keys[1].V, alts[len(alts)-1].V)
				out = append(out, CV{m, 1})
			}
		}
		return out
	case reflect.Struct:
		n := t.NumField()
		cur := []CV{{reflect.New(t).Elem(), 0}}
		for i := 0; i < n; i++ {
			var next []CV
			for _, c := range cur {
				for _, fv := range g.enum(t.Field(i).Type, k-c.Cost, d+1) {
					nv := reflect.New(t).Elem()
					nv.Set(c.V)
					setField(nv, i, fv.V)
					next = append(next, CV{nv, c.Cost + fv.Cost})
				}
			}
			cur = next
		}
		return cur
	default:
		dom := leafDomain(t)
		di := 0
		if len(dom) > 1 {
			di = 1
		}
		out := []CV{{dom[di], 0}}
		if k >= 1 {
			for i, v := range dom {
				if i != di {
					out = append(out, CV{v, 1})
				}
			}
		}
		return out
	}
}

// setField sets field i of addressable struct value s, also when the field is unexported.
func setField(s reflect.Value, i int, v reflect.Value) {
	f := s.Field(i)
	if !f.CanSet() {
		f = reflect.NewAt(f.Type(), unsafe.Pointer(f.UnsafeAddr())).Elem()
	}
	f.Set(v)
}

// rw returns a readable/writable view of v (strips the read-only flag of unexported fields).
func rw(v reflect.Value) reflect.Value {
	if !v.IsValid() || v.CanInterface() {
		return v
	}
	if v.CanAddr() {
		return reflect.NewAt(v.Type(), unsafe.Pointer(v.UnsafeAddr())).Elem()
	}
	// copy into addressable storage via unsafe: only reachable for non-addressable struct values
	return v
}

// addressable returns an addressable copy of v.
func addressable(v reflect.Value) reflect.Value {
	n := reflect.New(v.Type()).Elem()
	n.Set(v)
	return n
}
