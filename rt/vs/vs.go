// Package vs is the run-time half of engine E4 (Sched): a cooperative scheduler for instrumented generated code.
// Instrumented code calls Point before every statement and Write* before every store; exactly one thread runs
// at a time, so the "current thread" is well defined and every execution is fully determined by its choice sequence.
package vs

import (
	"fmt"
	"reflect"
	"sync"
	"unsafe"
)

// Region is a half-open address range (or a map identity) that belongs to the shared source value.
type Region struct {
	Lo, Hi uintptr
	MapID  uintptr
	What   string
}

type thread struct {
	id       int
	resume   chan struct{}
	finished bool
	panicVal any
}

// Point describes one scheduling decision.
type Decision struct {
	Enabled []int // canonical order: running thread first if still enabled, then ascending ids
	Chosen  int   // index into Enabled
	Running bool  // the previously running thread is still enabled (choosing index>0 is a preemption)
}

// Sched runs one execution.
type Sched struct {
	mu        sync.Mutex
	threads   []*thread
	yield     chan int // thread id that yielded or finished
	cur       int
	prefix    []int
	Decisions []Decision
	Steps     int
	shared    []Region
	Writes    []string // violations: writes into shared memory or package-level state
	ReplayErr string
	active    bool
}

var current *Sched

// Run executes the bodies as threads under the given choice prefix (choice 0 afterwards) and returns the scheduler.
func Run(prefix []int, shared []Region, bodies []func()) *Sched {
	s := &Sched{yield: make(chan int), prefix: prefix, shared: shared, cur: -1}
	current = s
	s.active = true
	for i, b := range bodies {
		t := &thread{id: i, resume: make(chan struct{})}
		s.threads = append(s.threads, t)
		go func(t *thread, body func()) {
			<-t.resume
			defer func() {
				if r := recover(); r != nil {
					t.panicVal = r
				}
				t.finished = true
				s.yield <- t.id
			}()
			body()
		}(t, b)
	}
	for {
		var enabled []int
		running := false
		if s.cur >= 0 && !s.threads[s.cur].finished {
			enabled = append(enabled, s.cur)
			running = true
		}
		for _, t := range s.threads {
			if !t.finished && t.id != s.cur {
				enabled = append(enabled, t.id)
			}
		}
		if len(enabled) == 0 {
			break
		}
		choice := 0
		if len(enabled) > 1 {
			if i := len(s.Decisions); i < len(s.prefix) {
				choice = s.prefix[i]
				if choice < 0 || choice >= len(enabled) {
					s.ReplayErr = fmt.Sprintf("choice %d out of range at decision %d (%d enabled)", choice, i, len(enabled))
					choice = 0
				}
			}
			s.Decisions = append(s.Decisions, Decision{Enabled: enabled, Chosen: choice, Running: running})
		}
		s.cur = enabled[choice]
		s.threads[s.cur].resume <- struct{}{}
		<-s.yield
		s.Steps++
		if s.Steps > 1_000_000 {
			s.Writes = append(s.Writes, "horizon exceeded: more than 1e6 steps (livelock?)")
			break
		}
	}
	s.active = false
	current = nil
	return s
}

// Panics returns the panic values of the threads (nil entries for normal termination).
func (s *Sched) Panics() []any {
	out := make([]any, len(s.threads))
	for i, t := range s.threads {
		out[i] = t.panicVal
	}
	return out
}

// Point is called by instrumented code before every statement.
func Point(site int) {
	s := current
	if s == nil || !s.active {
		return
	}
	t := s.threads[s.cur]
	s.yield <- t.id
	<-t.resume
}

func (s *Sched) note(lo, hi, mapID uintptr, what string) {
	for _, r := range s.shared {
		if mapID != 0 {
			if r.MapID == mapID {
				s.Writes = append(s.Writes, fmt.Sprintf("thread %d writes into shared %s (%s)", s.cur, r.What, what))
				return
			}
			continue
		}
		if r.MapID == 0 && lo < r.Hi && r.Lo < hi {
			s.Writes = append(s.Writes, fmt.Sprintf("thread %d writes into shared %s (%s)", s.cur, r.What, what))
			return
		}
	}
}

// WritePtr reports a store through p (pointer to the assigned location).
func WritePtr(p any, what string) {
	s := current
	if s == nil || !s.active {
		return
	}
	v := reflect.ValueOf(p)
	if v.Kind() != reflect.Ptr || v.IsNil() {
		return
	}
	sz := v.Type().Elem().Size()
	if sz == 0 {
		return
	}
	s.note(v.Pointer(), v.Pointer()+sz, 0, what)
}

// WriteElem reports a store to container[index] (slice element or map entry).
func WriteElem(container any, index any, what string) {
	s := current
	if s == nil || !s.active {
		return
	}
	v := reflect.ValueOf(container)
	switch v.Kind() {
	case reflect.Map:
		if !v.IsNil() {
			s.note(0, 0, v.Pointer(), what)
		}
	case reflect.Slice:
		i := int(reflect.ValueOf(index).Int())
		if i >= 0 && i < v.Len() {
			sz := v.Type().Elem().Size()
			base := uintptr(unsafe.Pointer(v.Index(i).Addr().Pointer()))
			if sz > 0 {
				s.note(base, base+sz, 0, what)
			}
		}
	}
}

// WriteGlobal reports a store to package-level state.
func WriteGlobal(name string) {
	s := current
	if s == nil || !s.active {
		return
	}
	s.Writes = append(s.Writes, fmt.Sprintf("thread %d writes package-level variable %s", s.cur, name))
}
