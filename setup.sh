#!/bin/bash
# One-time offline setup: warm the Go build cache for the driver, the goverter CLI and the runtime harness.
set -e
cd "$(dirname "$0")"
export GOFLAGS=-mod=mod GOPROXY=off GOSUMDB=off GOTOOLCHAIN=local
mkdir -p bin evidence replays
cp /repo/go.sum go.sum
go build -tags verif -o bin/vcheck ./cmd/vcheck
(cd /repo && go build -o /verif/bin/goverter ./cmd/goverter)
tools/mkcache.sh
echo setup ok
