#!/bin/bash
# Builds the template Go build cache for scratch modules: standard library + verifrt, plain and -race.
# Scratch builds of a check run use a hard-linked copy of it that is deleted when the check ends, so the
# persistent build cache does not grow with every explored batch.
set -e
root="$(cd "$(dirname "$0")/.." && pwd)"
export GOFLAGS=-mod=mod GOPROXY=off GOSUMDB=off GOTOOLCHAIN=local
tpl="$root/bin/gocache-template"
tmp="$(mktemp -d)"
trap 'rm -rf "$tmp"' EXIT
rm -rf "$tpl"; mkdir -p "$tpl"
mkdir -p "$tmp/m/conv/generated" "$tmp/m/in" "$tmp/m/out"
cat > "$tmp/m/go.mod" <<EOM
module vx

go 1.22

require verifrt v0.0.0

replace verifrt => $root/rt
EOM
printf 'package in\n\ntype T struct{ A int }\n' > "$tmp/m/in/in.go"
printf 'package out\n\ntype T struct{ A int }\n' > "$tmp/m/out/out.go"
printf 'package conv\n\nimport (\n\t"fmt"\n\t"unsafe"\n\t"vx/in"\n\t"vx/out"\n)\n\nvar _ = fmt.Sprint\nvar _ unsafe.Pointer\nvar _ in.T\nvar _ out.T\n' > "$tmp/m/conv/conv.go"
printf 'package generated\n\nimport (\n\t"fmt"\n\t"vx/in"\n\t"vx/out"\n)\n\nfunc F(s in.T) (out.T, error) { return out.T{A: s.A}, fmt.Errorf("x") }\n' > "$tmp/m/conv/generated/g.go"
cat > "$tmp/m/main.go" <<'EOM'
package main

import (
	rt "verifrt"
	"verifrt/vs"
	"vx/conv/generated"
)

var _ = vs.Point

func main() {
	rt.Register(rt.Case{ID: "x", Fn: generated.F})
	rt.Main()
	rt.SchedMain()
	rt.RaceMain()
}
EOM
cd "$tmp/m"
GOCACHE="$tpl" go build -o /dev/null .
GOCACHE="$tpl" go build -race -o /dev/null . || echo "race template build failed (race pass will build from scratch)"
GOCACHE="$tpl" go list -export -deps ./... >/dev/null
GOCACHE="$tpl" go vet ./... >/dev/null 2>&1 || true
du -sh "$tpl" | cut -f1
