#!/bin/bash
# usage: run_all.sh <tier> <repeats>  — runs every check; prints one line per check and any VIOLATION/HARNESS lines
tier="${1:-quick}"; n="${2:-1}"
cd "$(dirname "$0")/.."
for i in $(seq 1 $n); do
  for p in C01 C02 C03 C04 C05 C06 C07 C08 C09 C10 C11 C12 C13 C14 C15 C16 C17 C18 C19; do
    out=$(./vcheck.sh $p $tier 2>&1); rc=$?
    echo "round=$i $p rc=$rc $(echo "$out" | grep "tier=" | cut -c1-90)"
    echo "$out" | grep "^VIOLATION\|HARNESS-ERROR\|VACUOUS" -A4 | cut -c1-300
  done
done
