#!/bin/bash
# usage: seed_confirm.sh <Cxx> <seedname>  — confirms a sub-agent's seeded change in its scratch worktree and stores it under /verif/seeded/<seedname>/
set -u
export GOFLAGS=-mod=mod GOPROXY=off GOSUMDB=off GOTOOLCHAIN=local
id="$1"; name="$2"; wt=/tmp/seed/wt-$id; out=/tmp/seed/out-$id
[ -f $out/patch.diff ] || { echo "no patch"; exit 1; }
cd $wt || exit 1
git checkout -q -- . 2>/dev/null; git clean -fdq -- . ':!execution' 2>/dev/null
git apply --check $out/patch.diff || { echo "patch does not apply"; exit 1; }
(cd $wt && go build -o /tmp/seed/bin-$id-orig ./cmd/goverter) || exit 1
git apply $out/patch.diff
go build ./... || { echo "does not compile"; exit 1; }
go build -o /tmp/seed/bin-$id-mod ./cmd/goverter || exit 1
tests=$(go test -vet=off -count=1 ./... 2>&1 | grep -v "no test files")
echo "$tests" | grep -v "^ok" && { echo "TESTS FAIL"; exit 1; }
ntests_ok=$(echo "$tests" | grep -c "^ok")
bash $out/demo.sh /tmp/seed/bin-$id-orig > /tmp/seed/demo-$id-orig.log 2>&1; r1=$?
bash $out/demo.sh /tmp/seed/bin-$id-mod > /tmp/seed/demo-$id-mod.log 2>&1; r2=$?
echo "tests ok packages=$ntests_ok demo(orig)=$r1 demo(mod)=$r2"
if [ $r1 -ne 0 ] || [ $r2 -eq 0 ]; then echo "DEMO does not discriminate"; tail -5 /tmp/seed/demo-$id-orig.log /tmp/seed/demo-$id-mod.log; exit 1; fi
d=/verif/seeded/$name; mkdir -p $d
cp $out/patch.diff $out/demo.sh $d/
[ -f $out/NOTES.md ] && cp $out/NOTES.md $d/
python3 - "$id" "$name" "$ntests_ok" "$r1" "$r2" <<'PY'
import json,sys,subprocess
id,name,n,r1,r2=sys.argv[1:6]
meta={"property":id,"seed":name,"needs_to_manifest":open(f"/tmp/seed/out-{id}/NOTES.md").read()[:1500] if True else "",
 "confirmed":{"patch_applies":True,"go_build":"ok","test_suite":f"go test -vet=off -count=1 ./... : {n} packages ok, none failing","demo_on_original_exit":int(r1),"demo_on_modified_exit":int(r2)},
 "ran":["git apply patch.diff (scratch worktree)","go build ./...","go test -vet=off -count=1 ./...","demo.sh <orig binary>","demo.sh <modified binary>"],
 "detected_by":"see DESIGN.md seeded-change table"}
json.dump(meta,open(f"/verif/seeded/{name}/meta.json","w"),indent=1)
PY
git checkout -q -- . ; rm -f /tmp/seed/bin-$id-orig /tmp/seed/bin-$id-mod
echo "stored $d"
