#!/bin/bash
# Applies every seeded change in turn and runs the check of the property it breaks (quick tier); prints a table.
cd /verif
for d in seeded/*/; do
  name=$(basename $d); prop=${name%%-*}
  res=$(tools/seed_run.sh $name $prop 2>&1 | head -1)
  echo "$name $prop $res"
done
git -C /repo status --short | head -3
