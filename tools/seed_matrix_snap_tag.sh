#!/bin/bash
# Seed matrix that touches neither /verif nor /repo: a frozen copy of /verif (sources + template build cache) is run against
# a scratch worktree of /repo to which each seeded change is applied in turn. Usage: seed_matrix_snap.sh [seed-glob] [tier]
# Result lines "<seed> <prop> DETECTED|MISSED|BUILD-FAILED" go to stdout; logs to /tmp/verif-snap-logs/.
set -u
glob="${1:-*}"; tier="${2:-quick}"
tag="${SNAP_TAG:-b}"; snap=/tmp/verif-snap-$tag; repo=/tmp/repo-snap-$tag; logs=/tmp/verif-snap-logs-$tag
rm -rf "$snap" "$logs"; mkdir -p "$snap" "$logs"
git -C /repo worktree remove --force "$repo" 2>/dev/null; rm -rf "$repo"
git -C /repo worktree add -q --detach "$repo" HEAD || exit 1
(cd /verif && tar cf - --exclude=./.git --exclude=./replays --exclude=./evidence --exclude=./bin --exclude=./seeded .) | (cd "$snap" && tar xf -)
mkdir -p "$snap/bin" && cp -al /verif/bin/gocache-template "$snap/bin/gocache-template"
cp /verif/known_findings.json "$snap/"
sed -i "s#=> /repo#=> $repo#" "$snap/go.mod"
for d in /verif/seeded/$glob/; do
  name=$(basename "$d"); prop=${name%%-*}
  git -C "$repo" checkout -q -- . ; git -C "$repo" clean -qfd
  if ! git -C "$repo" apply "$d/patch.diff" 2>/dev/null; then echo "$name $prop NOAPPLY"; continue; fi
  VERIF_REPO="$repo" "$snap/vcheck.sh" "$prop" "$tier" > "$logs/$name.log" 2>&1; rc=$?
  if grep -q "^VIOLATION property=$prop" "$logs/$name.log"; then echo "$name $prop DETECTED rc=$rc"
  elif grep -q "BUILD-FAILED" "$logs/$name.log"; then echo "$name $prop BUILD-FAILED"
  else echo "$name $prop MISSED rc=$rc"; fi
done
git -C /repo worktree remove --force "$repo" 2>/dev/null
rm -rf "$snap"
