#!/bin/bash
# usage: seed_run.sh <seedname> <Cxx> [tier]  — applies the seeded patch to /repo, runs the check, reverts. Prints DETECTED/MISSED.
set -u
name="$1"; prop="$2"; tier="${3:-quick}"
cd /repo && git diff --quiet || { echo "/repo dirty"; exit 9; }
git -C /repo apply /verif/seeded/$name/patch.diff || { echo "apply failed"; exit 9; }
cd /verif && ./vcheck.sh $prop $tier > /tmp/seedrun-$name-$prop.log 2>&1; rc=$?
git -C /repo checkout -- .
if grep -q "^VIOLATION property=$prop" /tmp/seedrun-$name-$prop.log; then echo "DETECTED $name by $prop (rc=$rc)"; grep -A3 "^VIOLATION" /tmp/seedrun-$name-$prop.log | head -8 | cut -c1-300; else echo "MISSED $name by $prop (rc=$rc)"; tail -3 /tmp/seedrun-$name-$prop.log | cut -c1-300; fi
# restore evidence of the unchanged tree later (evidence files are rewritten by every run)
