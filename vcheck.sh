#!/bin/bash
# Rebuilds the driver (linking /repo's current working tree, hooks on) and the real CLI, then runs a check.
# usage: ./vcheck.sh <Cxx> [quick|thorough] [--replay file]
set -u
cd "$(dirname "$0")"
export GOFLAGS=-mod=mod GOPROXY=off GOSUMDB=off GOTOOLCHAIN=local
export VERIF_ROOT="$PWD"
mkdir -p bin evidence replays
REPO="${VERIF_REPO:-/repo}"  # seed testing may point this at a scratch worktree; registered commands never set it
export VERIF_REPO="$REPO"
cp "$REPO/go.sum" go.sum 2>/dev/null
prop="$1"; shift
tier="${VERIF_TIER:-quick}"
if [ "${1:-}" = "quick" ] || [ "${1:-}" = "thorough" ]; then tier="$1"; shift; fi
export VERIF_TIER="$tier"
(
  flock 9
  go build -tags verif -o bin/vcheck ./cmd/vcheck || exit 90
  (cd "$REPO" && go build -o "$VERIF_ROOT/bin/goverter" ./cmd/goverter) || exit 91
  [ -d bin/gocache-template ] || tools/mkcache.sh >/dev/null 2>&1 || exit 92
) 9>bin/.lock
rc=$?
if [ $rc -ne 0 ]; then
  echo "BUILD-FAILED: driver or goverter CLI does not build against /repo working tree (rc=$rc)"
  exit 2
fi
export VERIF_GOVERTER="$VERIF_ROOT/bin/goverter"
export VERIF_SCRATCH="${TMPDIR:-/tmp}"
# scratch modules are compiled against a throw-away copy (hard links) of the template build cache, so that the
# persistent Go build cache does not grow with every explored batch
runcache="$(mktemp -d "$VERIF_SCRATCH/verif-gocache-XXXXXX")"
cp -al bin/gocache-template/. "$runcache/" 2>/dev/null || cp -a bin/gocache-template/. "$runcache/"
export VERIF_PERSISTENT_GOCACHE="$(go env GOCACHE)"
export GOCACHE="$runcache"
bin/vcheck "$prop" "$@"
rc=$?
rm -rf "$runcache"
exit $rc
