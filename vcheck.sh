#!/bin/bash
# Rebuilds the driver (linking /repo's current working tree, hooks on) and the real CLI, then runs a check.
# usage: ./vcheck.sh <Cxx> [quick|thorough] [--replay file]
set -u
cd "$(dirname "$0")"
export GOFLAGS=-mod=mod GOPROXY=off GOSUMDB=off GOTOOLCHAIN=local
export VERIF_ROOT="$PWD"
mkdir -p bin evidence replays
cp /repo/go.sum go.sum 2>/dev/null
prop="$1"; shift
tier="${VERIF_TIER:-quick}"
if [ "${1:-}" = "quick" ] || [ "${1:-}" = "thorough" ]; then tier="$1"; shift; fi
export VERIF_TIER="$tier"
(
  flock 9
  go build -tags verif -o bin/vcheck ./cmd/vcheck || exit 90
  (cd /repo && go build -o "$VERIF_ROOT/bin/goverter" ./cmd/goverter) || exit 91
) 9>bin/.lock
rc=$?
if [ $rc -ne 0 ]; then
  echo "BUILD-FAILED: driver or goverter CLI does not build against /repo working tree (rc=$rc)"
  exit 2
fi
export VERIF_GOVERTER="$VERIF_ROOT/bin/goverter"
export VERIF_SCRATCH="${TMPDIR:-/tmp}"
exec bin/vcheck "$prop" "$@"
